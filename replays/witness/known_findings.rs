// Witness tests for the known findings of /verif/known_findings.txt (public API, scripted transport).
// Each test asserts the PROPERTY; it fails on a tree that still has the finding.
#![allow(unused_imports, dead_code)]
// scratch probes: confirm suspected defects through the public API only
use embedded_io_async::{ErrorKind, ErrorType, Read, Write};
use minimq::{Buffers, ConfigBuilder, ConnectEvent, Error, Property, PubError, Publication, QoS, Session, TopicFilter, Will, ResourceError};
use std::{cell::RefCell, collections::VecDeque, future::{poll_fn, Future}, pin::pin, rc::Rc, sync::Arc, task::{Context, Poll, Wake, Waker}};

struct Nop; impl Wake for Nop { fn wake(self: Arc<Self>) {} }
fn poll_n<F: Future>(f: F, n: usize) -> Option<F::Output> {
    let w = Waker::from(Arc::new(Nop)); let mut cx = Context::from_waker(&w);
    let mut f = pin!(f);
    for _ in 0..n { if let Poll::Ready(v) = f.as_mut().poll(&mut cx) { return Some(v); } }
    None
}
fn block<F: Future>(f: F) -> F::Output { poll_n(f, 100000).expect("future did not complete") }

#[derive(Default)]
struct Inner { rx: VecDeque<u8>, wire: Vec<u8>, // bytes accepted
    accept: VecDeque<isize>, // per write call: n>0 accept at most n bytes; 0 => return Ok(0); -1 => Pending forever; empty => accept all
}
#[derive(Clone, Default)]
struct Io(Rc<RefCell<Inner>>);
impl Io { fn rx(&self, b: &[u8]) { self.0.borrow_mut().rx.extend(b.iter().copied()); } fn wire(&self) -> Vec<u8> { self.0.borrow().wire.clone() } fn script(&self, a: &[isize]) { self.0.borrow_mut().accept = a.iter().copied().collect(); } }
impl ErrorType for Io { type Error = ErrorKind; }
impl Read for Io { async fn read(&mut self, buf: &mut [u8]) -> Result<usize, ErrorKind> {
    poll_fn(|_cx| { let mut i = self.0.borrow_mut(); if i.rx.is_empty() { return Poll::Pending; } let n = buf.len().min(i.rx.len()); for b in buf[..n].iter_mut() { *b = i.rx.pop_front().unwrap(); } Poll::Ready(Ok(n)) }).await } }
impl Write for Io {
    async fn write(&mut self, buf: &[u8]) -> Result<usize, ErrorKind> {
        poll_fn(|_cx| { let mut i = self.0.borrow_mut();
            match i.accept.front().copied() { None => { i.wire.extend_from_slice(buf); Poll::Ready(Ok(buf.len())) }
                Some(-1) => Poll::Pending,
                Some(0) => { i.accept.pop_front(); Poll::Ready(Ok(0)) }
                Some(n) => { i.accept.pop_front(); let n = (n as usize).min(buf.len()); i.wire.extend_from_slice(&buf[..n]); Poll::Ready(Ok(n)) } } }).await }
    async fn flush(&mut self) -> Result<(), ErrorKind> { Ok(()) }
}
fn session(rx: usize, tx: usize) -> Session<'static> {
    let rx = Box::leak(vec![0u8; rx].into_boxed_slice()); let tx = Box::leak(vec![0u8; tx].into_boxed_slice());
    Session::new(ConfigBuilder::new(Buffers::new(rx, tx)).client_id("t").unwrap().session_expiry_interval(3600))
}
fn connack(sp: bool) -> Vec<u8> { vec![0x20, 0x03, sp as u8, 0x00, 0x00] }
fn connack_rm(sp: bool, max: u16) -> Vec<u8> { vec![0x20, 0x06, sp as u8, 0x00, 0x03, 0x21, (max >> 8) as u8, max as u8] }
fn ack(t: u8, id: u16) -> Vec<u8> { vec![t, 0x02, (id >> 8) as u8, id as u8] }
/// split a byte stream into MQTT packets (assumes well-formed, 1-byte remaining length)
fn packets(mut w: &[u8]) -> Vec<Vec<u8>> { let mut v = vec![]; while w.len() >= 2 { let n = 2 + w[1] as usize; if w.len() < n { v.push(w.to_vec()); break; } v.push(w[..n].to_vec()); w = &w[n..]; } v }

#[test]
fn d5b_quota_reset_on_resume() {
    let mut s = session(128, 512);
    let io = Io::default(); io.rx(&connack_rm(false, 1));
    let mut c = block(s.connect(io.clone())).unwrap();
    block(c.publish(Publication::bytes("a", b"x").qos(QoS::AtLeastOnce))).unwrap();
    drop(c);
    let io2 = Io::default(); io2.rx(&connack_rm(true, 1));
    let mut c = block(s.connect(io2.clone())).unwrap();
    let r = block(c.publish(Publication::bytes("a", b"y").qos(QoS::AtLeastOnce)));
    let n = packets(&io2.wire()).iter().filter(|p| p[0] >> 4 == 3).count();
    println!("D5b after resume: PUBLISH packets on new connection = {}, second publish ok = {}", n, r.is_ok());
    assert!(n <= 1, "two unacknowledged PUBLISH on a connection with Receive Maximum 1");
}

#[test]
fn d6_subscribe_replay_flags() {
    let mut s = session(128, 512);
    let io = Io::default(); io.rx(&connack(false));
    let mut c = block(s.connect(io.clone())).unwrap();
    block(c.subscribe(&[TopicFilter::new("f")], &[])).unwrap();
    drop(c);
    let io2 = Io::default(); io2.rx(&connack(true));
    let mut c = block(s.connect(io2.clone())).unwrap();
    for _ in 0..3 { let _ = poll_n(c.poll(), 50); }
    let ps = packets(&io2.wire());
    println!("D6 replay first bytes: {:02x?}", ps.iter().map(|p| p[0]).collect::<Vec<_>>());
    assert!(ps.iter().all(|p| p[0] != 0x8A), "SUBSCRIBE replayed with reserved flag bits 1010");
}

#[test]
fn d7_disconnect_into_half_sent_packet() {
    let mut s = session(128, 512);
    let io = Io::default(); io.rx(&connack(false));
    let mut c = block(s.connect(io.clone())).unwrap();
    let before = io.wire().len();
    io.script(&[3, -1]); // accept 3 bytes of the PUBLISH, then stall
    let r = poll_n(c.publish(Publication::bytes("abc", b"xyz").qos(QoS::AtLeastOnce)), 10);
    assert!(r.is_none()); // cancelled (dropped) while the write is pending
    io.script(&[]);
    block(c.disconnect()).unwrap();
    let w = io.wire()[before..].to_vec();
    println!("D7 wire after cancelled publish + disconnect: {:02x?}", w);
    assert!(w.len() != 3 + 2, "DISCONNECT injected after 3 bytes of an unfinished PUBLISH");
}

#[test]
fn d8_qos0_writezero_leaves_torn_packet() {
    let mut s = session(128, 512);
    let io = Io::default(); io.rx(&connack(false));
    let mut c = block(s.connect(io.clone())).unwrap();
    let before = io.wire().len();
    io.script(&[3, 0]);
    let r = block(c.publish(Publication::bytes("abc", b"xyz")));
    println!("D8 qos0 result: {:?} connected={}", r.as_ref().map(|_| ()).map_err(|e| format!("{e:?}")), c.is_connected());
    io.script(&[]);
    let r2 = block(c.publish(Publication::bytes("abc", b"xyz")));
    let w = io.wire()[before..].to_vec();
    println!("D8 wire: {:02x?} second={:?}", w, r2.is_ok());
    assert!(!(c.is_connected() && w.len() > 3 && r2.is_ok()), "new packet started after 3 bytes of a torn QoS0 PUBLISH on a live connection");
}

#[test]
fn d9_full_arena_blocks_reconnect() {
    let mut s = session(128, 64);
    let io = Io::default(); io.rx(&connack(false));
    let mut c = block(s.connect(io.clone())).unwrap();
    let payload = [0u8; 50];
    block(c.publish(Publication::bytes("a", &payload).qos(QoS::AtLeastOnce))).unwrap();
    drop(c);
    let io2 = Io::default(); io2.rx(&connack(true));
    let r = block(s.connect(io2.clone()));
    println!("D9 reconnect with nearly full arena: {:?}", r.as_ref().map(|_| ()).map_err(|e| format!("{e:?}")));
    assert!(r.is_ok(), "session cannot reconnect while the arena holds retained packets");
}
