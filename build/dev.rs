// ======================================================================================
// 00_prelude: shims with ASSUMED contracts (the trusted base; every entry is listed in the
// evidence).  Nothing in this file is extracted from /repo.
// ======================================================================================
use vstd::prelude::*;
verus! {

// (no broadcast groups: keep queries small and failures fast)

// ---- std combinators without a vstd specification ------------------------------------
pub assume_specification<T, F: FnOnce(T) -> bool> [Option::<T>::is_some_and] (o: Option<T>, f: F) -> (r: bool)
    requires o is Some ==> f.requires((o->0,)),
    ensures match o { Some(v) => f.ensures((v,), r), None => !r };

/// elements of `s` whose flag in `keep` is set, in order (model of `retain`)
pub open spec fn mask_filter<A>(s: Seq<A>, keep: Seq<bool>) -> Seq<A>
    decreases s.len()
{
    if s.len() == 0 || keep.len() != s.len() { Seq::empty() } else {
        let sub = mask_filter(s.drop_last(), keep.drop_last());
        if keep.last() { sub.push(s.last()) } else { sub }
    }
}
pub proof fn lemma_mask_all<A>(s: Seq<A>, keep: Seq<bool>)
    requires keep.len() == s.len(), forall|i: int| 0 <= i < s.len() ==> #[trigger] keep[i],
    ensures mask_filter(s, keep) =~= s
    decreases s.len()
{
    if s.len() > 0 {
        lemma_mask_all(s.drop_last(), keep.drop_last());
        assert(s.drop_last().push(s.last()) =~= s);
    }
}
pub proof fn lemma_mask_remove<A>(s: Seq<A>, keep: Seq<bool>, k: int)
    requires keep.len() == s.len(), 0 <= k < s.len(), !keep[k], forall|i: int| 0 <= i < s.len() && i != k ==> #[trigger] keep[i],
    ensures mask_filter(s, keep) =~= s.remove(k)
    decreases s.len()
{
    let last = s.len() - 1;
    if k == last {
        lemma_mask_all(s.drop_last(), keep.drop_last());
        assert(s.remove(k) =~= s.drop_last());
    } else {
        lemma_mask_remove(s.drop_last(), keep.drop_last(), k);
        assert(s.remove(k) =~= s.drop_last().remove(k).push(s.last()));
    }
}

pub assume_specification<T> [<T as core::convert::From<T>>::from] (t: T) -> (r: T) ensures r == t;

// ---- core::num::NonZeroU16 ------------------------------------------------------------
pub struct NonZeroU16 { pub v: u16 }
impl Clone for NonZeroU16 { #[verifier::external_body] fn clone(&self) -> (r: Self) ensures r == *self { unimplemented!() } }
impl Copy for NonZeroU16 {}
impl NonZeroU16 {
    #[verifier::external_body] pub fn new(v: u16) -> (r: Option<NonZeroU16>)
        ensures r == (if v != 0 { Some(NonZeroU16 { v }) } else { None::<NonZeroU16> }) { unimplemented!() }
    #[verifier::external_body] pub fn get(self) -> (r: u16) ensures r == self.v { unimplemented!() }
}

// ---- heapless::Vec<T, N> -------------------------------------------------------------
// Assumed contract on a dependency: a sequence of at most N elements.  `at`/`at_mut`
// stand for indexing through the iterators that rule X16 turns into index loops;
// `position_of`/`any_of` stand for `iter().position(..)`/`iter().any(..)` (rule X17).
// Cross-checked against the real heapless crate by the Kani harnesses in kani/hvec.rs.
pub struct Vec<T, const N: usize> { v: std::vec::Vec<T> }
impl<T, const N: usize> View for Vec<T, N> { type V = Seq<T>; closed spec fn view(&self) -> Seq<T> { self.v@ } }
impl<T, const N: usize> Vec<T, N> {
    #[verifier::external_body] fn new() -> (r: Self) ensures r@.len() == 0 { unimplemented!() }
    #[verifier::external_body] fn len(&self) -> (r: usize) ensures r == self@.len(), r <= N { unimplemented!() }
    #[verifier::external_body] fn capacity(&self) -> (r: usize) ensures r == N { unimplemented!() }
    #[verifier::external_body] fn is_empty(&self) -> (r: bool) ensures r == (self@.len() == 0) { unimplemented!() }
    #[verifier::external_body] fn is_full(&self) -> (r: bool) ensures r == (self@.len() == N) { unimplemented!() }
    #[verifier::external_body] fn clear(&mut self) ensures final(self)@.len() == 0 { unimplemented!() }
    #[verifier::external_body] fn push(&mut self, item: T) -> (r: Result<(), T>)
        ensures old(self)@.len() < N ==> r is Ok && final(self)@ == old(self)@.push(item),
                old(self)@.len() >= N ==> r is Err && final(self)@ == old(self)@,
                final(self)@.len() <= N,
    { unimplemented!() }
    #[verifier::external_body] fn remove(&mut self, index: usize) -> (r: T)
        requires index < old(self)@.len()
        ensures r == old(self)@[index as int], final(self)@ == old(self)@.remove(index as int)
    { unimplemented!() }
    #[verifier::external_body] fn swap_remove(&mut self, index: usize) -> (r: T)
        requires index < old(self)@.len()
        ensures r == old(self)@[index as int],
          final(self)@ == old(self)@.update(index as int, old(self)@.last()).drop_last()
    { unimplemented!() }
    #[verifier::external_body] fn first(&self) -> (r: Option<&T>)
        ensures r == (if self@.len() > 0 { Some(&self@[0]) } else { None }) { unimplemented!() }
    #[verifier::external_body] fn last(&self) -> (r: Option<&T>)
        ensures r == (if self@.len() > 0 { Some(&self@[self@.len() - 1]) } else { None }) { unimplemented!() }
    #[verifier::external_body] fn get(&self, i: usize) -> (r: Option<&T>)
        ensures r == (if i < self@.len() { Some(&self@[i as int]) } else { None }) { unimplemented!() }
    #[verifier::external_body] fn pop(&mut self) -> (r: Option<T>)
        ensures old(self)@.len() > 0 ==> r == Some(old(self)@[old(self)@.len() - 1]) && final(self)@ == old(self)@.drop_last(),
                old(self)@.len() == 0 ==> r is None && final(self)@ == old(self)@,
    { unimplemented!() }
    #[verifier::external_body] fn truncate(&mut self, n: usize)
        ensures final(self)@ == (if n < old(self)@.len() { old(self)@.subrange(0, n as int) } else { old(self)@ })
    { unimplemented!() }
    #[verifier::external_body] fn at(&self, i: usize) -> (r: &T)
        requires i < self@.len() ensures *r == self@[i as int] { unimplemented!() }
    #[verifier::external_body] fn at_mut(&mut self, i: usize) -> (r: &mut T)
        requires i < old(self)@.len()
        ensures *r == old(self)@[i as int], final(self)@ == old(self)@.update(i as int, *final(r))
    { unimplemented!() }
    #[verifier::external_body]
    fn position_of<F: Fn(&T) -> bool>(&self, f: F) -> (r: Option<usize>)
        requires forall|i: int| 0 <= i < self@.len() ==> f.requires((&#[trigger] self@[i],)),
        ensures match r {
            Some(k) => k < self@.len() && f.ensures((&self@[k as int],), true)
                       && forall|j: int| 0 <= j < k ==> f.ensures((&#[trigger] self@[j],), false),
            None => forall|j: int| 0 <= j < self@.len() ==> f.ensures((&#[trigger] self@[j],), false),
        }
    { unimplemented!() }
    #[verifier::external_body]
    fn any_of<F: Fn(&T) -> bool>(&self, f: F) -> (r: bool)
        requires forall|i: int| 0 <= i < self@.len() ==> f.requires((&#[trigger] self@[i],)),
        ensures r ==> exists|k: int| 0 <= k < self@.len() && f.ensures((&#[trigger] self@[k],), true),
                !r ==> forall|j: int| 0 <= j < self@.len() ==> f.ensures((&#[trigger] self@[j],), false),
    { unimplemented!() }
    #[verifier::external_body]
    fn retain<F: FnMut(&T) -> bool>(&mut self, f: F)
        requires forall|i: int| 0 <= i < old(self)@.len() ==> f.requires((&#[trigger] old(self)@[i],)),
        ensures exists|keep: Seq<bool>| keep.len() == old(self)@.len()
            && (forall|i: int| 0 <= i < keep.len() ==> f.ensures((&old(self)@[i],), #[trigger] keep[i]))
            && final(self)@ == mask_filter(old(self)@, keep),
    { unimplemented!() }
}
impl<const N: usize> Vec<u16, N> {
    #[verifier::external_body] fn contains(&self, x: &u16) -> (r: bool)
        ensures r == self@.contains(*x) { unimplemented!() }
}

/// trusted model of `<[u8]>::copy_within(src_start..src_end, dest)` (memmove)
#[verifier::external_body]
fn slice_copy_within(b: &mut [u8], src_start: usize, src_end: usize, dest: usize)
    requires src_start <= src_end <= old(b)@.len(), dest + (src_end - src_start) <= old(b)@.len()
    ensures final(b)@.len() == old(b)@.len(),
        forall|k: int| 0 <= k < final(b)@.len() ==> #[trigger] final(b)@[k] ==
            (if dest <= k < dest + (src_end - src_start) { old(b)@[k - dest + src_start] } else { old(b)@[k] })
{ unimplemented!() }

// ---- transport (embedded-io-async contract) -------------------------------------------
pub struct IoErr { pub k: u8 }
impl IoErr { #[verifier::external_body] fn kind(&self) -> u8 { unimplemented!() } }

pub struct VIo { pub wire: Ghost<Seq<u8>>, pub ops: Ghost<nat>, pub inbound: Ghost<Seq<u8>> }
impl VIo {
    #[verifier::external_body]
    async fn write(&mut self, buf: &[u8]) -> (r: Result<usize, IoErr>)
        ensures
            final(self).ops@ == old(self).ops@ + 1,
            final(self).inbound@ == old(self).inbound@,
            match r { Ok(n) => n <= buf@.len() && final(self).wire@ == old(self).wire@ + buf@.subrange(0, n as int),
                      Err(_) => final(self).wire@ == old(self).wire@ }
    { unimplemented!() }
    #[verifier::external_body]
    async fn flush(&mut self) -> (r: Result<(), IoErr>)
        ensures final(self).ops@ == old(self).ops@ + 1, final(self).wire@ == old(self).wire@,
            final(self).inbound@ == old(self).inbound@,
    { unimplemented!() }
    #[verifier::external_body]
    async fn read(&mut self, buf: &mut [u8]) -> (r: Result<usize, IoErr>)
        ensures
            final(self).ops@ == old(self).ops@ + 1,
            final(self).wire@ == old(self).wire@,
            final(buf)@.len() == old(buf)@.len(),
            match r {
                Ok(n) => n <= old(buf)@.len()
                    && final(self).inbound@ == old(self).inbound@ + final(buf)@.subrange(0, n as int)
                    && final(buf)@.subrange(n as int, final(buf)@.len() as int) == old(buf)@.subrange(n as int, old(buf)@.len() as int),
                Err(_) => final(self).inbound@ == old(self).inbound@ && final(buf)@ == old(buf)@,
            }
    { unimplemented!() }
}

} // verus!

// ======================================================================================
// 05_errors: error enums and their From conversions (src/lib.rs, src/ser, src/de)
// ======================================================================================
verus! {

#[derive(Copy, Clone, PartialEq, Eq, Structural)]
pub enum ReasonCode {
    Success,
    GrantedQos1,
    GrantedQos2,
    DisconnectWithWill,
    NoMatchingSubscribers,
    NoSubscriptionExisted,
    ContinueAuthentication,
    Reauthenticate,
    UnspecifiedError,
    MalformedPacket,
    ProtocolError,
    ImplementationError,
    UnsupportedProtocol,
    ClientIdentifierInvalid,
    BadUsernameOrPassword,
    NotAuthorized,
    ServerUnavailable,
    ServerBusy,
    BadAuthMethod,
    KeepAliveTimeout,
    SessionTakenOver,
    TopicFilterInvalid,
    TopicNameInvalid,
    PacketIdInUse,
    PacketIdNotFound,
    ReceiveMaxExceeded,
    TopicAliasInvalid,
    PacketTooLarge,
    MessageRateTooHigh,
    QuotaExceeded,
    AdministrativeAction,
    PayloadFormatInvalid,
    RetainNotSupported,
    QoSNotSupported,
    UseAnotherServer,
    ServerMoved,
    SharedSubscriptionsNotSupported,
    ConnectionRateExceeded,
    MaximumConnectTime,
    SubscriptionIdentifiersNotSupported,
    WildcardSubscriptionsNotSupported,
    Unknown,
}
pub open spec fn rc_u8(x: ReasonCode) -> u8 { match x { ReasonCode::Success => 0x00u8, ReasonCode::GrantedQos1 => 0x01u8, ReasonCode::GrantedQos2 => 0x02u8, ReasonCode::DisconnectWithWill => 0x04u8, ReasonCode::NoMatchingSubscribers => 0x10u8, ReasonCode::NoSubscriptionExisted => 0x11u8, ReasonCode::ContinueAuthentication => 0x18u8, ReasonCode::Reauthenticate => 0x19u8, ReasonCode::UnspecifiedError => 0x80u8, ReasonCode::MalformedPacket => 0x81u8, ReasonCode::ProtocolError => 0x82u8, ReasonCode::ImplementationError => 0x83u8, ReasonCode::UnsupportedProtocol => 0x84u8, ReasonCode::ClientIdentifierInvalid => 0x85u8, ReasonCode::BadUsernameOrPassword => 0x86u8, ReasonCode::NotAuthorized => 0x87u8, ReasonCode::ServerUnavailable => 0x88u8, ReasonCode::ServerBusy => 0x89u8, ReasonCode::BadAuthMethod => 0x8cu8, ReasonCode::KeepAliveTimeout => 0x8du8, ReasonCode::SessionTakenOver => 0x8eu8, ReasonCode::TopicFilterInvalid => 0x8fu8, ReasonCode::TopicNameInvalid => 0x90u8, ReasonCode::PacketIdInUse => 0x91u8, ReasonCode::PacketIdNotFound => 0x92u8, ReasonCode::ReceiveMaxExceeded => 0x93u8, ReasonCode::TopicAliasInvalid => 0x94u8, ReasonCode::PacketTooLarge => 0x95u8, ReasonCode::MessageRateTooHigh => 0x96u8, ReasonCode::QuotaExceeded => 0x97u8, ReasonCode::AdministrativeAction => 0x98u8, ReasonCode::PayloadFormatInvalid => 0x99u8, ReasonCode::RetainNotSupported => 0x9Au8, ReasonCode::QoSNotSupported => 0x9bu8, ReasonCode::UseAnotherServer => 0x9cu8, ReasonCode::ServerMoved => 0x9du8, ReasonCode::SharedSubscriptionsNotSupported => 0x9eu8, ReasonCode::ConnectionRateExceeded => 0x9fu8, ReasonCode::MaximumConnectTime => 0xa0u8, ReasonCode::SubscriptionIdentifiersNotSupported => 0xa1u8, ReasonCode::WildcardSubscriptionsNotSupported => 0xa2u8, ReasonCode::Unknown => 0xFFu8, } }
#[derive(Copy, Clone, PartialEq, Eq, Structural)]
pub enum ResourceError {
    BufferTooSmall,
    PacketTooLarge,
    InflightExhausted,
}
#[derive(Copy, Clone, PartialEq, Eq, Structural)]
pub enum PeerError {
    Rejected(ReasonCode),
    InvalidPacket,
}
#[derive(Copy, Clone, PartialEq, Eq, Structural, Debug)]
pub enum SerError {
    InsufficientMemory,
    Custom,
}
pub enum SerPubError<E> {
    Encode(SerError),
    Payload(E),
}
#[derive(Copy, Clone, PartialEq, Eq, Structural, Debug)]
pub enum DeError {
    Custom,
    BadString,
    BadBool,
    BadVarint,
    InsufficientData,
}
#[derive(Clone, PartialEq, Debug)]
pub enum ProtocolError {
    UnexpectedPacket,
    MalformedPacket,
    InflightMetadataExhausted,
    PacketTooLarge,
    Encode( SerError),
    Deserialization( DeError),
}
pub enum Error<E> {
    NotReady,
    Disconnected,
    InvalidRequest,
    Peer(PeerError),
    Resource(ResourceError),
    Transport(E),
    WriteZero,
}
pub enum PubError<P, T> {
    Session( Error<T>),
    Payload(P),
}

pub open spec fn err_of_ser<E>(err: SerError) -> Error<E> {
    match err {
        SerError::InsufficientMemory => Error::Resource(ResourceError::BufferTooSmall),
        SerError::Custom => Error::InvalidRequest,
    }
}
pub open spec fn err_of_protocol<E>(p: ProtocolError) -> Error<E> {
    match p {
        ProtocolError::UnexpectedPacket => Error::Peer(PeerError::InvalidPacket),
        ProtocolError::MalformedPacket => Error::Peer(PeerError::InvalidPacket),
        ProtocolError::Deserialization(_) => Error::Peer(PeerError::InvalidPacket),
        ProtocolError::InflightMetadataExhausted => Error::Resource(ResourceError::InflightExhausted),
        ProtocolError::PacketTooLarge => Error::Resource(ResourceError::PacketTooLarge),
        ProtocolError::Encode(err) => err_of_ser(err),
    }
}

impl<E> From<SerError> for Error<E> {
#[verifier::spinoff_prover]
fn from(err: SerError) -> (r: Self)
    ensures
        r == err_of_ser::<E>(err),
{
        match err {
            SerError::InsufficientMemory => Self::Resource(ResourceError::BufferTooSmall),
            SerError::Custom => Self::InvalidRequest,
        }
    }
}
impl<E> vstd::std_specs::convert::FromSpecImpl<SerError> for Error<E> {
    open spec fn obeys_from_spec() -> bool { true }
    open spec fn from_spec(err: SerError) -> Self { err_of_ser(err) }
}

impl<E> From<ProtocolError> for Error<E> {
#[verifier::spinoff_prover]
fn from(p: ProtocolError) -> (r: Self)
    ensures
        r == err_of_protocol::<E>(p),
{
        match p {
            ProtocolError::UnexpectedPacket
            | ProtocolError::MalformedPacket
            | ProtocolError::Deserialization(_) => Self::Peer(PeerError::InvalidPacket),
            ProtocolError::InflightMetadataExhausted => {
                Self::Resource(ResourceError::InflightExhausted)
            }
            ProtocolError::PacketTooLarge => Self::Resource(ResourceError::PacketTooLarge),
            ProtocolError::Encode(err) => Self::from(err),
        }
    }
}
impl<E> vstd::std_specs::convert::FromSpecImpl<ProtocolError> for Error<E> {
    open spec fn obeys_from_spec() -> bool { true }
    open spec fn from_spec(p: ProtocolError) -> Self { err_of_protocol(p) }
}

impl<E> From<DeError> for Error<E> {
#[verifier::spinoff_prover]
fn from(err: DeError) -> (r: Self)
    ensures
        r == Error::<E>::Peer(PeerError::InvalidPacket),
{
        let _ = err;
        Self::Peer(PeerError::InvalidPacket)
    }
}
impl<E> vstd::std_specs::convert::FromSpecImpl<DeError> for Error<E> {
    open spec fn obeys_from_spec() -> bool { true }
    open spec fn from_spec(err: DeError) -> Self { Error::Peer(PeerError::InvalidPacket) }
}

impl<E> From<PeerError> for Error<E> {
#[verifier::spinoff_prover]
fn from(err: PeerError) -> (r: Self)
    ensures
        r == Error::<E>::Peer(err),
{
        Self::Peer(err)
    }
}
impl<E> vstd::std_specs::convert::FromSpecImpl<PeerError> for Error<E> {
    open spec fn obeys_from_spec() -> bool { true }
    open spec fn from_spec(err: PeerError) -> Self { Error::Peer(err) }
}

impl<E> From<ResourceError> for Error<E> {
#[verifier::spinoff_prover]
fn from(err: ResourceError) -> (r: Self)
    ensures
        r == Error::<E>::Resource(err),
{
        Self::Resource(err)
    }
}
impl<E> vstd::std_specs::convert::FromSpecImpl<ResourceError> for Error<E> {
    open spec fn obeys_from_spec() -> bool { true }
    open spec fn from_spec(err: ResourceError) -> Self { Error::Resource(err) }
}

// thiserror `#[from]` on ProtocolError::{Encode, Deserialization} and PubError::Session:
// the derive generates exactly these wrappers (assumed; thiserror is a dependency).
impl From<SerError> for ProtocolError {
    fn from(e: SerError) -> (r: Self) ensures r == ProtocolError::Encode(e) { ProtocolError::Encode(e) }
}
impl vstd::std_specs::convert::FromSpecImpl<SerError> for ProtocolError {
    open spec fn obeys_from_spec() -> bool { true }
    open spec fn from_spec(e: SerError) -> Self { ProtocolError::Encode(e) }
}
impl From<DeError> for ProtocolError {
    fn from(e: DeError) -> (r: Self) ensures r == ProtocolError::Deserialization(e) { ProtocolError::Deserialization(e) }
}
impl vstd::std_specs::convert::FromSpecImpl<DeError> for ProtocolError {
    open spec fn obeys_from_spec() -> bool { true }
    open spec fn from_spec(e: DeError) -> Self { ProtocolError::Deserialization(e) }
}
impl<P, T> From<Error<T>> for PubError<P, T> {
    fn from(e: Error<T>) -> (r: Self) ensures r == PubError::<P, T>::Session(e) { PubError::Session(e) }
}
impl<P, T> vstd::std_specs::convert::FromSpecImpl<Error<T>> for PubError<P, T> {
    open spec fn obeys_from_spec() -> bool { true }
    open spec fn from_spec(e: Error<T>) -> Self { PubError::Session(e) }
}

impl<P, T> From<SerPubError<P>> for PubError<P, T> {
#[verifier::spinoff_prover]
fn from(e: SerPubError<P>) -> (r: Self)
    ensures
        r == (match e { SerPubError::Payload(x) => PubError::<P, T>::Payload(x), SerPubError::Encode(x) => PubError::<P, T>::Session(err_of_ser(x)) }),
{
        match e {
            SerPubError::Payload(e) => Self::Payload(e),
            SerPubError::Encode(e) => Self::Session(Error::from(e)),
        }
    }
}
impl<P, T> vstd::std_specs::convert::FromSpecImpl<SerPubError<P>> for PubError<P, T> {
    open spec fn obeys_from_spec() -> bool { true }
    open spec fn from_spec(e: SerPubError<P>) -> Self {
        match e { SerPubError::Payload(x) => PubError::Payload(x), SerPubError::Encode(x) => PubError::Session(err_of_ser(x)) }
    }
}
impl<P, T> From<ProtocolError> for PubError<P, T> {
#[verifier::spinoff_prover]
fn from(err: ProtocolError) -> (r: Self)
    ensures
        r == PubError::<P, T>::Session(err_of_protocol(err)),
{
        Self::Session(err.into())
    }
}
impl<P, T> vstd::std_specs::convert::FromSpecImpl<ProtocolError> for PubError<P, T> {
    open spec fn obeys_from_spec() -> bool { true }
    open spec fn from_spec(err: ProtocolError) -> Self { PubError::Session(err_of_protocol(err)) }
}

} // verus!

// ======================================================================================
// 06_time: embassy_time::{Instant, Duration} as tick counters over mathematical naturals
// (machine arithmetic treated as mathematical: u64 ticks at 1 MHz wrap after 584 000 years).
// ======================================================================================
verus! {

pub const TICK_HZ: u64 = 1_000_000;

pub struct Instant { pub t: Ghost<nat> }
pub struct Duration { pub t: Ghost<nat> }
impl Clone for Instant { #[verifier::external_body] fn clone(&self) -> (r: Self) ensures r == *self { unimplemented!() } }
impl Copy for Instant {}
impl Clone for Duration { #[verifier::external_body] fn clone(&self) -> (r: Self) ensures r == *self { unimplemented!() } }
impl Copy for Duration {}

impl Instant {
    pub open spec fn ticks(self) -> nat { self.t@ }
    /// the clock: any value (monotonicity is not needed by the clauses proved here)
    #[verifier::external_body] pub fn now() -> Instant { unimplemented!() }
    #[verifier::external_body] pub fn min(self, other: Instant) -> (r: Instant)
        ensures r == (if other.ticks() < self.ticks() { other } else { self }) { unimplemented!() }
}
impl Duration {
    pub open spec fn ticks(self) -> nat { self.t@ }
    #[verifier::external_body] pub fn from_millis(ms: u64) -> (r: Duration) ensures r.ticks() == ms * 1000 { unimplemented!() }
    #[verifier::external_body] pub fn from_secs(s: u64) -> (r: Duration) ensures r.ticks() == s * 1_000_000 { unimplemented!() }
    #[verifier::external_body] pub fn as_millis(&self) -> (r: u64) ensures r == self.ticks() / 1000 { unimplemented!() }
    #[verifier::external_body] pub fn as_secs(&self) -> (r: u64) ensures r == self.ticks() / 1_000_000 { unimplemented!() }
}
pub open spec fn instant_plus(a: Instant, d: Duration) -> Instant { Instant { t: Ghost((a.ticks() + d.ticks()) as nat) } }
impl vstd::std_specs::ops::AddSpecImpl<Duration> for Instant {
    open spec fn obeys_add_spec() -> bool { true }
    open spec fn add_req(self, rhs: Duration) -> bool { true }
    open spec fn add_spec(self, rhs: Duration) -> Instant { instant_plus(self, rhs) }
}
impl core::ops::Add<Duration> for Instant {
    type Output = Instant;
    #[verifier::external_body]
    fn add(self, rhs: Duration) -> (r: Instant) { unimplemented!() }
}
impl core::cmp::PartialEq for Instant {
    #[verifier::external_body]
    fn eq(&self, other: &Instant) -> (r: bool) ensures r == (self.ticks() == other.ticks()) { unimplemented!() }
}
impl vstd::std_specs::cmp::PartialOrdSpecImpl for Instant {
    open spec fn obeys_partial_cmp_spec() -> bool { true }
    open spec fn partial_cmp_spec(&self, other: &Instant) -> Option<core::cmp::Ordering> {
        if self.ticks() < other.ticks() { Some(core::cmp::Ordering::Less) }
        else if self.ticks() == other.ticks() { Some(core::cmp::Ordering::Equal) }
        else { Some(core::cmp::Ordering::Greater) }
    }
}
impl core::cmp::PartialOrd for Instant {
    #[verifier::external_body]
    fn partial_cmp(&self, other: &Instant) -> (r: Option<core::cmp::Ordering>) { unimplemented!() }
}

} // verus!

// ======================================================================================
// 07_encoder: entry points of the serde encoder (Kani leaves) as ASSUMED contracts.
// `Encodable` stands for the bound `serde::Serialize + ControlPacket`.
// ======================================================================================
verus! {

#[derive(Copy, Clone, PartialEq, Eq, Structural)]
pub enum QoS {
    AtMostOnce,
    AtLeastOnce,
    ExactlyOnce,
}
#[derive(Copy, Clone, PartialEq, Eq, Structural)]
pub enum Retain {
    NotRetained,
    Retained,
}

/// declaration index of a QoS level (the order `#[derive(PartialOrd)]` uses)
pub open spec fn qn(q: QoS) -> int { match q { QoS::AtMostOnce => 0, QoS::AtLeastOnce => 1, QoS::ExactlyOnce => 2 } }
impl vstd::std_specs::cmp::PartialOrdSpecImpl for QoS {
    open spec fn obeys_partial_cmp_spec() -> bool { true }
    open spec fn partial_cmp_spec(&self, other: &QoS) -> Option<core::cmp::Ordering> {
        if qn(*self) < qn(*other) { Some(core::cmp::Ordering::Less) } else if qn(*self) == qn(*other) { Some(core::cmp::Ordering::Equal) } else { Some(core::cmp::Ordering::Greater) }
    }
}
impl PartialOrd for QoS {
    #[verifier::external_body]
    fn partial_cmp(&self, other: &QoS) -> (r: Option<core::cmp::Ordering>) { unimplemented!() }
}

/// MQTT variable byte integer (1..4 bytes, minimal length) — Appendix B of DESIGN.md
pub open spec fn enc_varint(x: nat) -> Seq<u8>
    decreases x
{
    if x < 128 { seq![x as u8] } else { seq![((x % 128) + 128) as u8] + enc_varint(x / 128) }
}

/// `p` is one framed MQTT packet: first byte, canonical remaining length, exactly that many bytes
pub open spec fn framed(p: Seq<u8>) -> bool {
    exists|n: nat| n <= 0x0FFF_FFFF && (#[trigger] enc_varint(n)).len() + 1 + n == p.len()
        && p.subrange(1, 1 + enc_varint(n).len() as int) == enc_varint(n)
}

pub trait Encodable {
    /// the packet as the encoder lays it out (fixed header ++ body)
    spec fn enc(&self) -> Seq<u8>;
    /// None when the packet cannot be encoded at all (a field longer than 65535 bytes)
    spec fn encodable(&self) -> bool;
}

#[verifier::external_body]
#[verifier::reject_recursive_types(P)]
pub struct PayloadSpec<P> { _p: core::marker::PhantomData<P> }

pub trait ToPayload: Sized {
    type Error;
    fn serialize(self, buffer: &mut [u8]) -> Result<usize, Self::Error>;
}

#[derive(Copy, Clone)]
pub struct Utf8String<'a>(pub &'a str);
pub enum Property<'a> {
    PayloadFormatIndicator(u8),
    MessageExpiryInterval(u32),
    ContentType(&'a str),
    ResponseTopic(&'a str),
    CorrelationData(&'a [u8]),
    SubscriptionIdentifier(u32),
    SessionExpiryInterval(u32),
    AssignedClientIdentifier(&'a str),
    ServerKeepAlive(u16),
    AuthenticationMethod(&'a str),
    AuthenticationData(&'a [u8]),
    RequestProblemInformation(u8),
    WillDelayInterval(u32),
    RequestResponseInformation(u8),
    ResponseInformation(&'a str),
    ServerReference(&'a str),
    ReasonString(&'a str),
    ReceiveMaximum(u16),
    TopicAliasMaximum(u16),
    TopicAlias(u16),
    MaximumQoS(u8),
    RetainAvailable(u8),
    UserProperty(&'a str, &'a str),
    MaximumPacketSize(u32),
    WildcardSubscriptionAvailable(u8),
    SubscriptionIdentifierAvailable(u8),
    SharedSubscriptionAvailable(u8),
}
pub enum PropertiesData<'a> {
    Slice(&'a [Property<'a>]),
    Encoded(&'a [u8]),
    WithCorrelation {
        correlation: Property<'a>,
        properties: &'a [Property<'a>],
    },
}
pub struct Properties<'a> {
    pub inner: PropertiesData<'a>,
}
pub struct PublishHeader<'a> {
    pub topic: Utf8String<'a>,
    pub packet_id: Option<u16>,
    pub properties: Properties<'a>,
    pub retain: Retain,
    pub qos: QoS,
    pub dup: bool,
}

/// the PUBLISH packet the encoder lays out for this header and payload
pub uninterp spec fn enc_publish<P>(h: PublishHeader, payload: P) -> Seq<u8>;

pub struct MqttSerializer {}
impl MqttSerializer {
    #[verifier::external_body]
    pub fn encode_with_offset<'b, T: Encodable>(buf: &'b mut [u8], packet: &T) -> (r: Result<(usize, &'b [u8]), SerError>)
        ensures
            final(buf)@.len() == old(buf)@.len(),
            match r {
                Ok((off, p)) => off + p@.len() <= old(buf)@.len() && p@.len() >= 2
                    && p@ == final(buf)@.subrange(off as int, off + p@.len())
                    && p@ == packet.enc() && framed(p@),
                Err(e) => true,
            },
    { unimplemented!() }

    #[verifier::external_body]
    pub fn encode_publish_with_offset<'b, P: ToPayload>(buf: &'b mut [u8], header: &PublishHeader<'_>, payload: P) -> (r: Result<(usize, &'b [u8]), SerPubError<P::Error>>)
        ensures
            final(buf)@.len() == old(buf)@.len(),
            match r {
                Ok((off, p)) => off + p@.len() <= old(buf)@.len() && p@.len() >= 2
                    && p@ == final(buf)@.subrange(off as int, off + p@.len())
                    && p@ == enc_publish(*header, payload) && framed(p@),
                Err(e) => true,
            },
    { unimplemented!() }

    #[verifier::external_body]
    pub fn encode_publish<'b, P: ToPayload>(buf: &'b mut [u8], header: &PublishHeader<'_>, payload: P) -> (r: Result<&'b [u8], SerPubError<P::Error>>)
        ensures
            final(buf)@.len() == old(buf)@.len(),
            match r {
                Ok(p) => p@.len() <= old(buf)@.len() && p@.len() >= 2 && p@ == enc_publish(*header, payload) && framed(p@),
                Err(e) => true,
            },
    { unimplemented!() }

    #[verifier::external_body]
    pub fn encode<'b, T: Encodable>(buf: &'b mut [u8], packet: &T) -> (r: Result<&'b [u8], SerError>)
        ensures
            final(buf)@.len() == old(buf)@.len(),
            match r {
                Ok(p) => p@.len() <= old(buf)@.len() && p@.len() >= 2 && p@ == packet.enc() && framed(p@),
                Err(e) => true,
            },
            // the encoder reserves 5 header bytes and right-aligns the fixed header in them
            (packet.encodable() && old(buf)@.len() >= packet.enc().len() + 3) ==> r is Ok,
    { unimplemented!() }
}

} // verus!

// ======================================================================================
// 08_packets: packet structs handed to the session by the decoder, ReasonCode helpers,
// control-packet byte layouts (spec) and the 9-byte encoders' leaf contracts
// ======================================================================================
verus! {

pub struct ReasonData<'a> {
    pub code: ReasonCode,
    pub _properties: Option<Properties<'a>>,
}
pub struct Reason<'a> {
    pub reason: Option<ReasonData<'a>>,
}
pub struct ConnAck<'a> {
    pub session_present: bool,
    pub reason_code: ReasonCode,
    pub properties: Properties<'a>,
}
pub struct Publish<'a, P> {
    pub topic: Utf8String<'a>,
    pub packet_id: Option<u16>,
    pub properties: Properties<'a>,
    pub payload: P,
    pub retain: Retain,
    pub qos: QoS,
    pub dup: bool,
}
pub struct PubAck<'a> {
    pub packet_id: u16,
    pub reason: Reason<'a>,
}
pub struct PubRec<'a> {
    pub packet_id: u16,
    pub reason: Reason<'a>,
}
pub struct PubRel<'a> {
    pub packet_id: u16,
    pub reason: Reason<'a>,
}
pub struct PubComp<'a> {
    pub packet_id: u16,
    pub reason: Reason<'a>,
}
pub struct SubAck<'a> {
    pub packet_id: u16,
    pub _properties: Properties<'a>,
    pub codes: &'a [u8],
}
pub struct UnsubAck<'a> {
    pub packet_id: u16,
    pub _properties: Properties<'a>,
    pub codes: &'a [u8],
}
pub struct Disconnect<'a> {
    pub reason_code: Option<ReasonCode>,
    pub properties: Option<Properties<'a>>,
}
pub enum ReceivedPacket<'a> {
    ConnAck(ConnAck<'a>),
    Publish(Publish<'a, &'a [u8]>),
    PubAck(PubAck<'a>),
    SubAck(SubAck<'a>),
    UnsubAck(UnsubAck<'a>),
    PubRel(PubRel<'a>),
    PubRec(PubRec<'a>),
    PubComp(PubComp<'a>),
    Disconnect(Disconnect<'a>),
    PingResp,
}

/// num_enum `FromPrimitive` on ReasonCode: the variant with that discriminant, `Unknown` otherwise
pub open spec fn rc_from_u8(b: u8) -> ReasonCode {
    if exists|r: ReasonCode| rc_u8(r) == b && r != ReasonCode::Unknown { choose|r: ReasonCode| rc_u8(r) == b && r != ReasonCode::Unknown } else { ReasonCode::Unknown }
}
impl From<u8> for ReasonCode {
    #[verifier::external_body]
    fn from(b: u8) -> (r: ReasonCode) { unimplemented!() }
}
impl vstd::std_specs::convert::FromSpecImpl<u8> for ReasonCode {
    open spec fn obeys_from_spec() -> bool { true }
    open spec fn from_spec(b: u8) -> Self { rc_from_u8(b) }
}
impl From<ReasonCode> for u8 {
    #[verifier::external_body]
    fn from(c: ReasonCode) -> (r: u8) { unimplemented!() }
}
impl vstd::std_specs::convert::FromSpecImpl<ReasonCode> for u8 {
    open spec fn obeys_from_spec() -> bool { true }
    open spec fn from_spec(c: ReasonCode) -> Self { rc_u8(c) }
}
impl From<&ReasonCode> for u8 {
#[verifier::spinoff_prover]
fn from(code: &ReasonCode) -> (r: u8)
    ensures
        r == rc_u8(*code),
{
        (*code).into()
    }
}
impl vstd::std_specs::convert::FromSpecImpl<&ReasonCode> for u8 {
    open spec fn obeys_from_spec() -> bool { true }
    open spec fn from_spec(c: &ReasonCode) -> Self { rc_u8(*c) }
}

pub open spec fn rc_success(c: ReasonCode) -> bool { rc_u8(c) < 0x80 }

impl ReasonCode {
#[verifier::spinoff_prover]
fn success(&self) -> (r: bool)
    ensures
        r == rc_success(*self),
{
        let value: u8 = self.into();
        value < 0x80
    }
#[verifier::spinoff_prover]
fn failed(&self) -> (r: bool)
    ensures
        r == !rc_success(*self),
{
        !self.success()
    }
#[verifier::spinoff_prover]
fn as_result(&self) -> (r: Result<(), PeerError>)
    ensures
        r == (if rc_success(*self) { Ok::<(), PeerError>(()) } else { Err::<(), PeerError>(PeerError::Rejected(*self)) }),
{
        if self.success() {
            return Ok(());
        }
        Err(PeerError::Rejected(*self))
    }
}

pub open spec fn reason_of(r: Reason) -> ReasonCode {
    match r.reason { Some(d) => d.code, None => ReasonCode::Success }
}
impl<'a> Reason<'a> {
#[verifier::spinoff_prover]
fn code(&self) -> (r: ReasonCode)
    ensures
        r == reason_of(*self),
{
        (match self.reason
            .as_ref() { Some(data) => data.code, None => ReasonCode::Success })
    }
}
pub open spec fn reason_from(code: ReasonCode) -> Reason<'static> {
    Reason { reason: Some(ReasonData { code, _properties: None }) }
}
impl vstd::std_specs::convert::FromSpecImpl<ReasonCode> for Reason<'_> {
    open spec fn obeys_from_spec() -> bool { true }
    open spec fn from_spec(code: ReasonCode) -> Self { reason_from(code) }
}
impl From<ReasonCode> for Reason<'_> {
#[verifier::spinoff_prover]
fn from(code: ReasonCode) -> (r: Self)
    ensures
        r.reason matches Some(d) && d.code == code && d._properties is None,
{
        Self {
            reason: Some(ReasonData {
                code,
                _properties: None,
            }),
        }
    }
}

} // verus!

// ======================================================================================
// 10_outbound: src/mqtt_client/outbound.rs  — SendState, Outbound (all methods)
// ======================================================================================
verus! {


pub const MAX_FIXED_HEADER_SIZE: usize = 5;
pub const CONTROL_PACKET_LEN: usize = 9;
pub const MAX_RETAINED: usize = 8;
pub const MAX_PENDING_CONTROL: usize = 8;
pub const MAX_PENDING_RELEASE: usize = 8;

#[derive(Copy, Clone, PartialEq, Eq, Structural)]
pub enum ControlAction {
    PubAck { packet_id: u16, reason: ReasonCode },
    PubRec { packet_id: u16, reason: ReasonCode },
    PubComp { packet_id: u16, reason: ReasonCode },
    PingReq,
}
#[derive(Copy, Clone, PartialEq, Eq, Structural)]
pub struct PendingControl {
    pub action: ControlAction,
    pub state: SendState,
}
#[derive(Copy, Clone, PartialEq, Eq, Structural)]
pub struct PendingRelease {
    pub packet_id: u16,
    pub reason: ReasonCode,
    pub state: SendState,
}
#[derive(Copy, Clone, PartialEq, Eq, Structural)]
pub struct RetainedPacket {
    pub packet_id: u16,
    pub offset: usize,
    pub len: usize,
    pub state: SendState,
}
#[derive(Copy, Clone, PartialEq, Eq, Structural)]
pub enum SendState {
    Write { written: usize },
    Flush,
    Sent,
}
#[derive(Copy, Clone, PartialEq, Eq, Structural)]
pub struct RetainedStep {
    pub packet_id: u16,
    pub offset: usize,
    pub len: usize,
    pub state: SendState,
}
#[derive(Copy, Clone, PartialEq, Eq, Structural)]
pub struct ReleaseStep {
    pub packet_id: u16,
    pub reason: ReasonCode,
    pub state: SendState,
}
#[derive(Copy, Clone, PartialEq, Eq, Structural)]
pub struct ControlStep {
    pub action: ControlAction,
    pub state: SendState,
}
#[derive(Copy, Clone, PartialEq, Eq, Structural)]
pub enum OutboundStep {
    Control(ControlStep),
    Release(ReleaseStep),
    Retained(RetainedStep),
}
pub struct Outbound<'a> {
    pub buf: &'a mut [u8],
    pub used: usize,
    pub pending_control: Vec<PendingControl, MAX_PENDING_CONTROL>,
    pub retained: Vec<RetainedPacket, MAX_RETAINED>,
    pub pending_release: Vec<PendingRelease, MAX_PENDING_RELEASE>,
}

// ---------------------------------------------------------------- spec vocabulary
pub open spec fn st_fresh(s: SendState) -> bool { s == (SendState::Write { written: 0 }) }
pub open spec fn st_in_progress(s: SendState) -> bool {
    match s { SendState::Write { written } => written >= 1, SendState::Flush => true, SendState::Sent => false }
}
pub open spec fn sw(written: usize, len: usize) -> SendState {
    if written >= len { SendState::Flush } else { SendState::Write { written } }
}
pub open spec fn state_ok(s: SendState, len: int) -> bool {
    match s { SendState::Write { written } => written < len, _ => true }
}

/// bytes of one retained packet
pub open spec fn bytes_of(buf: Seq<u8>, e: RetainedPacket) -> Seq<u8> {
    buf.subrange(e.offset as int, e.offset + e.len)
}

/// abstract retained entry: everything but the arena offset
pub struct Ret { pub id: u16, pub len: usize, pub state: SendState, pub bytes: Seq<u8> }
pub open spec fn ret_of(buf: Seq<u8>, e: RetainedPacket) -> Ret {
    Ret { id: e.packet_id, len: e.len, state: e.state, bytes: bytes_of(buf, e) }
}
pub open spec fn rets(buf: Seq<u8>, r: Seq<RetainedPacket>) -> Seq<Ret> {
    Seq::new(r.len(), |i: int| ret_of(buf, r[i]))
}

/// entry-wise equality of two retained lists up to arena offsets (bytes compared extensionally)
pub open spec fn same_entries(b1: Seq<u8>, r1: Seq<RetainedPacket>, b2: Seq<u8>, r2: Seq<RetainedPacket>) -> bool {
    &&& r1.len() == r2.len()
    &&& forall|i: int| 0 <= i < r1.len() ==> {
            let a = #[trigger] r1[i]; let b = r2[i];
            a.packet_id == b.packet_id && a.len == b.len && a.state == b.state
            && bytes_of(b1, a) =~= bytes_of(b2, b)
        }
}
pub proof fn lemma_same_entries_rets(b1: Seq<u8>, r1: Seq<RetainedPacket>, b2: Seq<u8>, r2: Seq<RetainedPacket>)
    requires same_entries(b1, r1, b2, r2)
    ensures rets(b1, r1) =~= rets(b2, r2)
{
    assert forall|i: int| 0 <= i < r1.len() implies rets(b1, r1)[i] == rets(b2, r2)[i] by {
        let a = r1[i];
        assert(bytes_of(b1, r1[i]) =~= bytes_of(b2, r2[i]));
    }
}
pub proof fn lemma_rets_same_entries(b1: Seq<u8>, r1: Seq<RetainedPacket>, b2: Seq<u8>, r2: Seq<RetainedPacket>)
    requires rets(b1, r1) =~= rets(b2, r2)
    ensures same_entries(b1, r1, b2, r2)
{
    assert(rets(b1, r1).len() == rets(b2, r2).len());
    assert forall|i: int| 0 <= i < r1.len() implies ({
            let a = #[trigger] r1[i]; let b = r2[i];
            a.packet_id == b.packet_id && a.len == b.len && a.state == b.state
            && bytes_of(b1, a) =~= bytes_of(b2, b) }) by {
        assert(rets(b1, r1)[i] == rets(b2, r2)[i]);
    }
}

/// the per-entry facts of compact's loop invariant are exactly same_entries
pub proof fn lemma_rets_same_entries_of_inv(b1: Seq<u8>, r1: Seq<RetainedPacket>, b2: Seq<u8>, r2: Seq<RetainedPacket>)
    requires r1.len() == r2.len(),
        forall|i: int| 0 <= i < r1.len() ==> {
            let a = #[trigger] r1[i]; let b = r2[i];
            a.packet_id == b.packet_id && a.len == b.len && a.state == b.state && bytes_of(b1, a) =~= bytes_of(b2, b)
        },
    ensures same_entries(b1, r1, b2, r2)
{}
pub proof fn lemma_same_entries_sig(b1: Seq<u8>, r1: Seq<RetainedPacket>, b2: Seq<u8>, r2: Seq<RetainedPacket>)
    requires same_entries(b1, r1, b2, r2)
    ensures ret_sig(r1) == ret_sig(r2)
{
    assert(ret_sig(r1) =~= ret_sig(r2));
}

pub open spec fn prefix_sum(r: Seq<RetainedPacket>, n: int) -> int decreases n {
    if n <= 0 { 0 } else { prefix_sum(r, n - 1) + r[n - 1].len }
}

/// W2: entries in increasing offset order, pairwise disjoint, inside [0, used], used <= cap
pub open spec fn packed_ok(cap: int, used: int, r: Seq<RetainedPacket>) -> bool {
    &&& 0 <= used <= cap
    &&& forall|i: int| 0 <= i < r.len() ==> (#[trigger] r[i]).offset + r[i].len <= used
    &&& forall|i: int, j: int| 0 <= i < j < r.len() ==> (#[trigger] r[i]).offset + r[i].len <= (#[trigger] r[j]).offset
}

pub open spec fn ctl_len(a: ControlAction) -> int {
    match a { ControlAction::PingReq => 2, _ => 5 }
}
pub spec const REL_LEN: int = 5;

pub open spec fn ctl_first(c: Seq<PendingControl>, a: ControlAction) -> int
    decreases c.len()
{
    if c.len() == 0 { -1 } else if c[0].action == a { 0 } else {
        let r = ctl_first(c.subrange(1, c.len() as int), a); if r < 0 { -1 } else { r + 1 } }
}

/// representation invariant of Outbound (W1, W2, W4, W8) over the views of its fields; opaque so that
/// callers treat it as an atom (equal field views => same atom)
#[verifier::opaque]
pub open spec fn wfs(buf: Seq<u8>, used: usize, c: Seq<PendingControl>, r: Seq<RetainedPacket>, l: Seq<PendingRelease>) -> bool {
    &&& packed_ok(buf.len() as int, used as int, r)
    &&& buf.len() <= usize::MAX
    &&& r.len() <= MAX_RETAINED
    &&& c.len() <= MAX_PENDING_CONTROL
    &&& l.len() <= MAX_PENDING_RELEASE
    &&& forall|i: int| 0 <= i < r.len() ==> (#[trigger] r[i]).len >= 1 && state_ok(r[i].state, r[i].len as int)
    &&& forall|i: int| 0 <= i < c.len() ==> state_ok((#[trigger] c[i]).state, ctl_len(c[i].action))
    &&& forall|i: int| 0 <= i < l.len() ==> state_ok((#[trigger] l[i]).state, REL_LEN)
    // W8: Sent control entries are dropped at once by flush_control
    &&& forall|i: int| 0 <= i < c.len() ==> (#[trigger] c[i]).state != SendState::Sent
}
pub open spec fn wf(o: Outbound) -> bool {
    wfs(o.buf@, o.used, o.pending_control@, o.retained@, o.pending_release@)
}

pub open spec fn has_ret(r: Seq<RetainedPacket>, id: u16) -> bool {
    exists|i: int| 0 <= i < r.len() && (#[trigger] r[i]).packet_id == id
}
pub open spec fn has_rel(r: Seq<PendingRelease>, id: u16) -> bool {
    exists|i: int| 0 <= i < r.len() && (#[trigger] r[i]).packet_id == id
}
pub open spec fn has_ctl(c: Seq<PendingControl>, a: ControlAction) -> bool {
    exists|i: int| 0 <= i < c.len() && (#[trigger] c[i]).action == a
}
/// index of the first retained entry with this id (len if none)
pub open spec fn first_ret(r: Seq<RetainedPacket>, id: u16) -> int
    decreases r.len()
{
    if r.len() == 0 { 0 } else if r[0].packet_id == id { 0 } else { 1 + first_ret(r.subrange(1, r.len() as int), id) }
}
pub open spec fn first_rel(r: Seq<PendingRelease>, id: u16) -> int
    decreases r.len()
{
    if r.len() == 0 { 0 } else if r[0].packet_id == id { 0 } else { 1 + first_rel(r.subrange(1, r.len() as int), id) }
}
pub open spec fn first_ctl(c: Seq<PendingControl>, a: ControlAction) -> int
    decreases c.len()
{
    if c.len() == 0 { 0 } else if c[0].action == a { 0 } else { 1 + first_ctl(c.subrange(1, c.len() as int), a) }
}

pub proof fn lemma_first_ret(r: Seq<RetainedPacket>, id: u16, k: int)
    requires 0 <= k < r.len(), r[k].packet_id == id, forall|j: int| 0 <= j < k ==> (#[trigger] r[j]).packet_id != id,
    ensures first_ret(r, id) == k
    decreases r.len()
{
    if k > 0 {
        let t = r.subrange(1, r.len() as int);
        assert(r[0].packet_id != id);
        assert(forall|j: int| 0 <= j < k - 1 ==> (#[trigger] t[j]) == r[j + 1]);
        lemma_first_ret(t, id, k - 1);
    }
}
pub proof fn lemma_first_ret_none(r: Seq<RetainedPacket>, id: u16)
    requires forall|j: int| 0 <= j < r.len() ==> (#[trigger] r[j]).packet_id != id,
    ensures first_ret(r, id) == r.len()
    decreases r.len()
{
    if r.len() > 0 {
        let t = r.subrange(1, r.len() as int);
        assert(r[0].packet_id != id);
        assert(forall|j: int| 0 <= j < t.len() ==> (#[trigger] t[j]) == r[j + 1]);
        lemma_first_ret_none(t, id);
    }
}
pub proof fn lemma_first_rel(r: Seq<PendingRelease>, id: u16, k: int)
    requires 0 <= k < r.len(), r[k].packet_id == id, forall|j: int| 0 <= j < k ==> (#[trigger] r[j]).packet_id != id,
    ensures first_rel(r, id) == k
    decreases r.len()
{
    if k > 0 {
        let t = r.subrange(1, r.len() as int);
        assert(r[0].packet_id != id);
        assert(forall|j: int| 0 <= j < k - 1 ==> (#[trigger] t[j]) == r[j + 1]);
        lemma_first_rel(t, id, k - 1);
    }
}
pub proof fn lemma_first_ctl(c: Seq<PendingControl>, a: ControlAction, k: int)
    requires 0 <= k < c.len(), c[k].action == a, forall|j: int| 0 <= j < k ==> (#[trigger] c[j]).action != a,
    ensures first_ctl(c, a) == k
    decreases c.len()
{
    if k > 0 {
        let t = c.subrange(1, c.len() as int);
        assert(c[0].action != a);
        assert(forall|j: int| 0 <= j < k - 1 ==> (#[trigger] t[j]) == c[j + 1]);
        lemma_first_ctl(t, a, k - 1);
    }
}

// ---------------------------------------------------------------- SendState
impl SendState {
#[verifier::spinoff_prover]
fn is_fresh(self) -> (r: bool)
    ensures
        r == st_fresh(self),
{
        matches!(self, Self::Write { written: 0 })
    }
#[verifier::spinoff_prover]
fn is_in_progress(self) -> (r: bool)
    ensures
        r == st_in_progress(self),
{
        matches!(self, Self::Write { written: 1.. } | Self::Flush)
    }
#[verifier::spinoff_prover]
fn set_written(&mut self, written: usize, len: usize)
    ensures
        *final(self) == sw(written, len),
{
        *self = if written >= len {
            Self::Flush
        } else {
            Self::Write { written }
        };
    }
#[verifier::spinoff_prover]
fn matches_priority(self, in_progress: bool) -> (r: bool)
    ensures
        r == (if in_progress { st_in_progress(self) } else { st_fresh(self) }),
{
        if in_progress {
            self.is_in_progress()
        } else {
            self.is_fresh()
        }
    }
}


// ---------------------------------------------------------------- Outbound: frame helpers
/// arena contents (a `&mut` field cannot be dereferenced directly in a postcondition)
pub open spec fn bv(o: Outbound) -> Seq<u8> { o.buf@ }
/// control and release lists unchanged
pub open spec fn same_queues(a: Outbound, b: Outbound) -> bool {
    a.pending_control@ == b.pending_control@ && a.pending_release@ == b.pending_release@
}
/// nothing changed at all
pub open spec fn same_outbound(a: Outbound, b: Outbound) -> bool {
    &&& same_queues(a, b)
    &&& a.retained@ == b.retained@
    &&& a.used == b.used
    &&& a.buf@ == b.buf@
}
pub open spec fn cap(o: Outbound) -> usize { o.buf.len() }
pub proof fn lemma_cap_bound(o: Outbound) ensures bv(o).len() <= usize::MAX { assert(bv(o).len() == cap(o)); }
pub open spec fn total_len(o: Outbound) -> int { prefix_sum(o.retained@, o.retained@.len() as int) }

pub proof fn lemma_prefix_sum_bound(cap: int, used: int, r: Seq<RetainedPacket>, n: int)
    requires packed_ok(cap, used, r), 0 <= n <= r.len(),
    ensures 0 <= prefix_sum(r, n) <= used, n > 0 ==> prefix_sum(r, n) <= r[n - 1].offset + r[n - 1].len,
    decreases n
{
    if n > 0 {
        lemma_prefix_sum_bound(cap, used, r, n - 1);
        if n > 1 {
            assert(r[n - 2].offset + r[n - 2].len <= r[n - 1].offset);
        }
    }
}
pub proof fn lemma_prefix_sum_ext(a: Seq<RetainedPacket>, b: Seq<RetainedPacket>, n: int)
    requires 0 <= n <= a.len(), n <= b.len(), forall|i: int| 0 <= i < n ==> (#[trigger] a[i]).len == b[i].len,
    ensures prefix_sum(a, n) == prefix_sum(b, n)
    decreases n
{
    if n > 0 { lemma_prefix_sum_ext(a, b, n - 1); }
}
pub proof fn lemma_prefix_sum_mono(r: Seq<RetainedPacket>, a: int, b: int)
    requires 0 <= a <= b,
    ensures prefix_sum(r, a) <= prefix_sum(r, b)
    decreases b - a
{
    if a < b { lemma_prefix_sum_mono(r, a, b - 1); }
}
/// removing one entry keeps the arena layout well-formed and the other entries' bytes
pub proof fn lemma_remove_packed(buf: Seq<u8>, used: int, r: Seq<RetainedPacket>, k: int)
    requires packed_ok(buf.len() as int, used, r), 0 <= k < r.len(),
    ensures packed_ok(buf.len() as int, used, r.remove(k)),
        rets(buf, r.remove(k)) =~= rets(buf, r).remove(k),
{
    let t = r.remove(k);
    assert forall|i: int| 0 <= i < t.len() implies (#[trigger] t[i]).offset + t[i].len <= used by {
        if i < k { assert(t[i] == r[i]); } else { assert(t[i] == r[i + 1]); }
    }
    assert forall|i: int, j: int| 0 <= i < j < t.len() implies (#[trigger] t[i]).offset + t[i].len <= (#[trigger] t[j]).offset by {
        let ii = if i < k { i } else { i + 1 };
        let jj = if j < k { j } else { j + 1 };
        assert(t[i] == r[ii] && t[j] == r[jj]);
    }
}
/// k is the arena offset of some retained entry (the position of its fixed-header byte)
pub open spec fn is_first_byte(r: Seq<RetainedPacket>, k: int) -> bool {
    exists|i: int| 0 <= i < r.len() && (#[trigger] r[i]).offset == k
}
pub proof fn lemma_first_byte_step(r: Seq<RetainedPacket>, n: int)
    requires 0 <= n < r.len()
    ensures forall|k: int| is_first_byte(r.subrange(0, n + 1), k) == (is_first_byte(r.subrange(0, n), k) || k == r[n].offset)
{
    let a = r.subrange(0, n);
    let b = r.subrange(0, n + 1);
    assert forall|k: int| is_first_byte(b, k) == (is_first_byte(a, k) || k == r[n].offset) by {
        if is_first_byte(a, k) {
            let i = choose|i: int| 0 <= i < a.len() && (#[trigger] a[i]).offset == k;
            assert(b[i] == a[i]);
        }
        if k == r[n].offset { assert(b[n] == r[n]); }
        if is_first_byte(b, k) {
            let i = choose|i: int| 0 <= i < b.len() && (#[trigger] b[i]).offset == k;
            if i < n { assert(a[i] == b[i]); }
        }
    }
}
pub open spec fn prio(s: SendState, in_progress: bool) -> bool {
    if in_progress { st_in_progress(s) } else { st_fresh(s) }
}
/// index of the first entry with the wanted priority (len if none)
pub open spec fn ctl_idx(c: Seq<PendingControl>, ip: bool) -> int decreases c.len() {
    if c.len() == 0 { 0 } else if prio(c[0].state, ip) { 0 } else { 1 + ctl_idx(c.subrange(1, c.len() as int), ip) }
}
pub open spec fn rel_idx(c: Seq<PendingRelease>, ip: bool) -> int decreases c.len() {
    if c.len() == 0 { 0 } else if prio(c[0].state, ip) { 0 } else { 1 + rel_idx(c.subrange(1, c.len() as int), ip) }
}
pub open spec fn ret_idx(c: Seq<RetainedPacket>, ip: bool) -> int decreases c.len() {
    if c.len() == 0 { 0 } else if prio(c[0].state, ip) { 0 } else { 1 + ret_idx(c.subrange(1, c.len() as int), ip) }
}
pub proof fn lemma_ctl_idx(c: Seq<PendingControl>, ip: bool, k: int)
    requires 0 <= k < c.len(), prio(c[k].state, ip), forall|j: int| 0 <= j < k ==> !prio((#[trigger] c[j]).state, ip),
    ensures ctl_idx(c, ip) == k
    decreases c.len()
{
    if k > 0 {
        let t = c.subrange(1, c.len() as int);
        assert(!prio(c[0].state, ip));
        assert(forall|j: int| 0 <= j < k - 1 ==> (#[trigger] t[j]) == c[j + 1]);
        lemma_ctl_idx(t, ip, k - 1);
    }
}
pub proof fn lemma_ctl_idx_none(c: Seq<PendingControl>, ip: bool)
    requires forall|j: int| 0 <= j < c.len() ==> !prio((#[trigger] c[j]).state, ip),
    ensures ctl_idx(c, ip) == c.len()
    decreases c.len()
{
    if c.len() > 0 {
        let t = c.subrange(1, c.len() as int);
        assert(!prio(c[0].state, ip));
        assert(forall|j: int| 0 <= j < t.len() ==> (#[trigger] t[j]) == c[j + 1]);
        lemma_ctl_idx_none(t, ip);
    }
}
pub proof fn lemma_rel_idx(c: Seq<PendingRelease>, ip: bool, k: int)
    requires 0 <= k < c.len(), prio(c[k].state, ip), forall|j: int| 0 <= j < k ==> !prio((#[trigger] c[j]).state, ip),
    ensures rel_idx(c, ip) == k
    decreases c.len()
{
    if k > 0 {
        let t = c.subrange(1, c.len() as int);
        assert(!prio(c[0].state, ip));
        assert(forall|j: int| 0 <= j < k - 1 ==> (#[trigger] t[j]) == c[j + 1]);
        lemma_rel_idx(t, ip, k - 1);
    }
}
pub proof fn lemma_rel_idx_none(c: Seq<PendingRelease>, ip: bool)
    requires forall|j: int| 0 <= j < c.len() ==> !prio((#[trigger] c[j]).state, ip),
    ensures rel_idx(c, ip) == c.len()
    decreases c.len()
{
    if c.len() > 0 {
        let t = c.subrange(1, c.len() as int);
        assert(!prio(c[0].state, ip));
        assert(forall|j: int| 0 <= j < t.len() ==> (#[trigger] t[j]) == c[j + 1]);
        lemma_rel_idx_none(t, ip);
    }
}
pub proof fn lemma_ret_idx(c: Seq<RetainedPacket>, ip: bool, k: int)
    requires 0 <= k < c.len(), prio(c[k].state, ip), forall|j: int| 0 <= j < k ==> !prio((#[trigger] c[j]).state, ip),
    ensures ret_idx(c, ip) == k
    decreases c.len()
{
    if k > 0 {
        let t = c.subrange(1, c.len() as int);
        assert(!prio(c[0].state, ip));
        assert(forall|j: int| 0 <= j < k - 1 ==> (#[trigger] t[j]) == c[j + 1]);
        lemma_ret_idx(t, ip, k - 1);
    }
}
pub proof fn lemma_ret_idx_none(c: Seq<RetainedPacket>, ip: bool)
    requires forall|j: int| 0 <= j < c.len() ==> !prio((#[trigger] c[j]).state, ip),
    ensures ret_idx(c, ip) == c.len()
    decreases c.len()
{
    if c.len() > 0 {
        let t = c.subrange(1, c.len() as int);
        assert(!prio(c[0].state, ip));
        assert(forall|j: int| 0 <= j < t.len() ==> (#[trigger] t[j]) == c[j + 1]);
        lemma_ret_idx_none(t, ip);
    }
}
/// the step `next_step` hands out for one priority class: first match in list order
/// control, release, retained
pub open spec fn step_for(o: Outbound, ip: bool) -> Option<OutboundStep> {
    let c = o.pending_control@; let l = o.pending_release@; let r = o.retained@;
    let kc = ctl_idx(c, ip); let kl = rel_idx(l, ip); let kr = ret_idx(r, ip);
    if kc < c.len() {
        Some(OutboundStep::Control(ControlStep { action: c[kc].action, state: c[kc].state }))
    } else if kl < l.len() {
        Some(OutboundStep::Release(ReleaseStep { packet_id: l[kl].packet_id, reason: l[kl].reason, state: l[kl].state }))
    } else if kr < r.len() {
        Some(OutboundStep::Retained(RetainedStep { packet_id: r[kr].packet_id, offset: r[kr].offset, len: r[kr].len, state: r[kr].state }))
    } else { None }
}
/// in-progress entries first, then fresh ones
pub open spec fn next_step_spec(o: Outbound) -> Option<OutboundStep> {
    match step_for(o, true) { Some(s) => Some(s), None => step_for(o, false) }
}
pub open spec fn fresh_ctl(c: PendingControl) -> PendingControl { PendingControl { action: c.action, state: SendState::Write { written: 0 } } }
pub open spec fn fresh_rel(c: PendingRelease) -> PendingRelease { PendingRelease { state: SendState::Write { written: 0 }, ..c } }
pub open spec fn fresh_ret(c: RetainedPacket) -> RetainedPacket { RetainedPacket { state: SendState::Write { written: 0 }, ..c } }
/// a compacted arena: offsets are the prefix sums and `used` is the total
pub open spec fn compacted(o: Outbound) -> bool {
    &&& forall|i: int| 0 <= i < o.retained@.len() ==> (#[trigger] o.retained@[i]).offset == prefix_sum(o.retained@, i)
    &&& o.used == total_len(o)
}

impl<'a> Outbound<'a> {
#[verifier::spinoff_prover]
fn new(buf: &'a mut [u8]) -> (r: Self)
    ensures
        r.used == 0 && r.pending_control@.len() == 0 && r.retained@.len() == 0 && r.pending_release@.len() == 0,
        bv(r) == old(buf)@,
        wf(r),
{ proof { reveal(wfs); } 
        proof { assert(buf@.len() == buf.len()); }


        Self {
            buf,
            used: 0,
            pending_control: Vec::new(),
            retained: Vec::new(),
            pending_release: Vec::new(),
        }
    }

#[verifier::spinoff_prover]
fn clear(&mut self)
    ensures
        final(self).used == 0 && final(self).pending_control@.len() == 0 && final(self).retained@.len() == 0 && final(self).pending_release@.len() == 0,
        bv(*final(self)) == bv(*old(self)),
        wf(*final(self)),
{ proof { reveal(wfs); } 
        proof { lemma_cap_bound(*self); }


        self.used = 0;
        self.pending_control.clear();
        self.retained.clear();
        self.pending_release.clear();
    }

#[verifier::spinoff_prover]
fn has_pending_state(&self) -> (r: bool)
    ensures
        r == !(self.pending_control@.len() == 0 && self.retained@.len() == 0 && self.pending_release@.len() == 0),
{ proof { reveal(wfs); } 
        !self.pending_control.is_empty()
            || !self.retained.is_empty()
            || !self.pending_release.is_empty()
    }

#[verifier::spinoff_prover]
fn is_quiescent(&self) -> (r: bool)
    ensures
        r == (self.pending_control@.len() == 0 && self.retained@.len() == 0 && self.pending_release@.len() == 0),
{ proof { reveal(wfs); } 
        !self.has_pending_state()
    }

#[verifier::spinoff_prover]
fn retained_full(&self) -> (r: bool)
    ensures
        r == (self.retained@.len() == MAX_RETAINED),
{ proof { reveal(wfs); } 
        self.retained.is_full()
    }

#[verifier::spinoff_prover]
fn used(&self) -> (r: usize)
    ensures
        r == self.used,
{ proof { reveal(wfs); } 
        self.used
    }
#[verifier::spinoff_prover]
fn capacity(&self) -> (r: usize)
    ensures
        r == bv(*self).len(),
{ proof { reveal(wfs); } 
        self.buf.len()
    }
#[verifier::spinoff_prover]
fn retained_len(&self) -> (r: usize)
    ensures
        r == self.retained@.len(),
{ proof { reveal(wfs); } 
        self.retained.len()
    }
#[verifier::spinoff_prover]
fn pending_control_len(&self) -> (r: usize)
    ensures
        r == self.pending_control@.len(),
{ proof { reveal(wfs); } 
        self.pending_control.len()
    }
#[verifier::spinoff_prover]
fn pending_release_len(&self) -> (r: usize)
    ensures
        r == self.pending_release@.len(),
{ proof { reveal(wfs); } 
        self.pending_release.len()
    }
#[verifier::spinoff_prover]
fn max_inflight(&self) -> (r: u16)
    ensures
        r == 8,
{ proof { reveal(wfs); } 
        MAX_RETAINED.min(MAX_PENDING_RELEASE) as u16
    }

#[verifier::spinoff_prover]
fn used_after_compact(&self) -> (r: usize)
    requires
        wf(*self),
    ensures
        r == total_len(*self),
{ proof { reveal(wfs); } 
        { let mut __acc1: usize = 0; let mut __i1: usize = 0;
        while __i1 < self.retained.len() 
            invariant
                __i1 <= self.retained@.len(),
                __acc1 == prefix_sum(self.retained@, __i1 as int),
                wf(*self),
            decreases self.retained@.len() - __i1
{ proof { reveal(wfs); } 
            let entry = self.retained.at(__i1);
            proof { lemma_prefix_sum_bound(bv(*self).len() as int, self.used as int, self.retained@, __i1 as int + 1); }

            __acc1 = __acc1 + (entry.len);
            __i1 += 1;
        }
        __acc1 }
    }

#[verifier::spinoff_prover]
fn scratch_len(&self) -> (r: usize)
    requires
        wf(*self),
    ensures
        r == bv(*self).len() - total_len(*self),
{ proof { reveal(wfs); } 
        proof { lemma_prefix_sum_bound(bv(*self).len() as int, self.used as int, self.retained@, self.retained@.len() as int); }

        self.buf.len().saturating_sub(self.used_after_compact())
    }

#[verifier::spinoff_prover]
fn can_retain(&self) -> (r: bool)
    requires
        wf(*self),
    ensures
        r == (self.retained@.len() < MAX_RETAINED && bv(*self).len() - total_len(*self) >= MAX_FIXED_HEADER_SIZE),
{ proof { reveal(wfs); } 
        self.retained.len() < self.retained.capacity()
            && self.scratch_len() >= MAX_FIXED_HEADER_SIZE
    }

#[verifier::spinoff_prover]
fn compact(&mut self)
    requires
        wf(*old(self)),
    ensures
        bv(*final(self)).len() == bv(*old(self)).len() && same_queues(*final(self), *old(self)),
        rets(bv(*final(self)), final(self).retained@) =~= rets(bv(*old(self)), old(self).retained@),
        same_entries(bv(*final(self)), final(self).retained@, bv(*old(self)), old(self).retained@),
        total_len(*final(self)) == total_len(*old(self)),
        compacted(*final(self)),
        ret_sig(final(self).retained@) == ret_sig(old(self).retained@),
        wf(*final(self)),
{ proof { reveal(wfs); } 
        let previous_used = self.used;

        let mut cursor = 0;
        let mut moved = 0;
        let mut __i1: usize = 0;
        while __i1 < self.retained.len() 
            invariant
                __i1 <= self.retained@.len(),
                self.retained@.len() == old(self).retained@.len(),
                self.retained@.len() <= 8,
                bv(*self).len() == bv(*old(self)).len(),
                same_queues(*self, *old(self)),
                cursor == prefix_sum(old(self).retained@, __i1 as int),
                cursor <= bv(*self).len(),
                0 <= moved <= __i1,
                wf(*old(self)),
                forall|j: int| __i1 <= j < self.retained@.len() ==> #[trigger] self.retained@[j] == old(self).retained@[j],
                __i1 < self.retained@.len() ==> cursor <= old(self).retained@[__i1 as int].offset,
                forall|k: int| (if __i1 < self.retained@.len() { old(self).retained@[__i1 as int].offset as int } else { bv(*self).len() as int }) <= k < bv(*self).len() ==> #[trigger] bv(*self)[k] == bv(*old(self))[k],
                forall|i: int| 0 <= i < __i1 ==> {
                    let a = #[trigger] self.retained@[i]; let b = old(self).retained@[i];
                    a.packet_id == b.packet_id && a.len == b.len && a.state == b.state
                    && a.offset == prefix_sum(old(self).retained@, i)
                    && a.offset + a.len <= cursor
                    && bytes_of(bv(*self), a) =~= bytes_of(bv(*old(self)), b)
                },
            decreases self.retained@.len() - __i1
{ proof { reveal(wfs); } 
            proof {
                assert(self.retained@[__i1 as int] == old(self).retained@[__i1 as int]);
                assert(old(self).retained@[__i1 as int].offset + old(self).retained@[__i1 as int].len <= old(self).used);
                if __i1 + 1 < self.retained@.len() {
                    assert(old(self).retained@[__i1 as int].offset + old(self).retained@[__i1 as int].len <= old(self).retained@[__i1 as int + 1].offset);
                }
            }

            let entry = self.retained.at_mut(__i1);
            if entry.offset != cursor {
                slice_copy_within(self.buf, entry.offset, entry.offset + entry.len, cursor);
                entry.offset = cursor;
                moved += 1;
            }
            cursor += entry.len;
            __i1 += 1;
        }
        self.used = cursor;
        proof {
            let n = self.retained@.len() as int;
            lemma_prefix_sum_ext(self.retained@, old(self).retained@, n);
            lemma_rets_same_entries_of_inv(bv(*self), self.retained@, bv(*old(self)), old(self).retained@);
            assert forall|i: int| 0 <= i < n implies (#[trigger] self.retained@[i]).offset == prefix_sum(self.retained@, i) by {
                lemma_prefix_sum_ext(self.retained@, old(self).retained@, i);
            }
            assert forall|i: int, j: int| 0 <= i < j < n implies (#[trigger] self.retained@[i]).offset + self.retained@[i].len <= (#[trigger] self.retained@[j]).offset by {
                lemma_prefix_sum_mono(old(self).retained@, i + 1, j);
            }
            assert forall|i: int| 0 <= i < n implies (#[trigger] self.retained@[i]).offset + self.retained@[i].len <= cursor by {
                lemma_prefix_sum_mono(old(self).retained@, i + 1, n);
            }
        }

        if moved != 0 || previous_used != self.used {

        }
    }

#[verifier::spinoff_prover]
fn scratch_space(&mut self) -> (r: &mut [u8])
    requires
        wf(*old(self)),
    ensures
        r@.len() == bv(*old(self)).len() - total_len(*old(self)),
        final(self).retained@.len() == old(self).retained@.len() && same_queues(*final(self), *old(self)) && bv(*final(self)).len() == bv(*old(self)).len(),
        same_entries(bv(*final(self)), final(self).retained@, bv(*old(self)), old(self).retained@),
        ret_sig(final(self).retained@) == ret_sig(old(self).retained@),
        wf(*final(self)) && compacted(*final(self)),
{ proof { reveal(wfs); } 
        self.compact();
        &mut self.buf[self.used..]
    }

#[verifier::spinoff_prover]
fn queue_control(&mut self, action: ControlAction) -> (r: Result<(), ProtocolError>)
    requires
        wf(*old(self)),
    ensures
        old(self).pending_control@.len() < MAX_PENDING_CONTROL ==> r is Ok
            && final(self).pending_control@ == old(self).pending_control@.push(PendingControl { action, state: SendState::Write { written: 0 } }),
        old(self).pending_control@.len() >= MAX_PENDING_CONTROL ==> r == Err::<(), ProtocolError>(ProtocolError::InflightMetadataExhausted)
            && final(self).pending_control@ == old(self).pending_control@,
        final(self).retained@ == old(self).retained@ && final(self).pending_release@ == old(self).pending_release@
            && final(self).used == old(self).used && bv(*final(self)) == bv(*old(self)),
        wf(*final(self)),
{ proof { reveal(wfs); } 
        (match self.pending_control
            .push(PendingControl {
                action,
                state: SendState::Write { written: 0 },
            }) { Ok(__v) => Ok(__v), Err(_) => Err(ProtocolError::InflightMetadataExhausted) })
    }

#[verifier::spinoff_prover]
fn has_pending_pingreq(&self) -> (r: bool)
    ensures
        r == (exists|i: int| 0 <= i < self.pending_control@.len() && (#[trigger] self.pending_control@[i]).action == ControlAction::PingReq && self.pending_control@[i].state != SendState::Sent),
{ proof { reveal(wfs); } 
        self.pending_control.any_of(|entry| -> (__r: bool) ensures __r == (matches!(entry.action, ControlAction::PingReq) && entry.state != SendState::Sent) { matches!(entry.action, ControlAction::PingReq) && entry.state != SendState::Sent })
    }

#[verifier::spinoff_prover]
fn ack_packet(&mut self, packet_id: u16) -> (r: bool)
    requires
        wf(*old(self)),
    ensures
        r == has_ret(old(self).retained@, packet_id),
        !r ==> same_outbound(*final(self), *old(self)),
        r ==> rets(bv(*final(self)), final(self).retained@) =~= rets(bv(*old(self)), old(self).retained@).remove(first_ret(old(self).retained@, packet_id)),
        same_queues(*final(self), *old(self)) && bv(*final(self)).len() == bv(*old(self)).len(),
        wf(*final(self)) && (r ==> compacted(*final(self))),
{ proof { reveal(wfs); } 
        let Some(position) = self
            .retained.position_of(|entry| -> (__r: bool) ensures __r == (entry.packet_id == packet_id) { entry.packet_id == packet_id })
        else {
            return false;
        };
        self.retained.remove(position);
        proof {
            lemma_first_ret(old(self).retained@, packet_id, position as int);
            lemma_remove_packed(bv(*old(self)), old(self).used as int, old(self).retained@, position as int);
        }

        self.compact();
        true
    }

#[verifier::spinoff_prover]
fn has_retained(&self, packet_id: u16) -> (r: bool)
    ensures
        r == has_ret(self.retained@, packet_id),
{ proof { reveal(wfs); } 
        self.retained.any_of(|entry| -> (__r: bool) ensures __r == (entry.packet_id == packet_id) { entry.packet_id == packet_id })
    }

#[verifier::spinoff_prover]
fn queue_release(
        &mut self,
        packet_id: u16,
        reason: ReasonCode,
    ) -> (r: Result<(), ProtocolError>)
    requires
        wf(*old(self)),
    ensures
        old(self).pending_release@.len() < MAX_PENDING_RELEASE ==> r is Ok
            && final(self).pending_release@ == old(self).pending_release@.push(PendingRelease { packet_id, reason, state: SendState::Write { written: 0 } }),
        old(self).pending_release@.len() >= MAX_PENDING_RELEASE ==> r == Err::<(), ProtocolError>(ProtocolError::InflightMetadataExhausted)
            && final(self).pending_release@ == old(self).pending_release@,
        final(self).retained@ == old(self).retained@ && final(self).pending_control@ == old(self).pending_control@
            && final(self).used == old(self).used && bv(*final(self)) == bv(*old(self)),
        wf(*final(self)),
{ proof { reveal(wfs); } 
        (match self.pending_release
            .push(PendingRelease {
                packet_id,
                reason,
                state: SendState::Write { written: 0 },
            }) { Ok(__v) => Ok(__v), Err(_) => Err(ProtocolError::InflightMetadataExhausted) })
    }

#[verifier::spinoff_prover]
fn ack_release(&mut self, packet_id: u16) -> (r: bool)
    requires
        wf(*old(self)),
    ensures
        r == has_rel(old(self).pending_release@, packet_id),
        !r ==> final(self).pending_release@ == old(self).pending_release@,
        r ==> final(self).pending_release@ =~= old(self).pending_release@.remove(first_rel(old(self).pending_release@, packet_id)),
        final(self).retained@ == old(self).retained@ && final(self).pending_control@ == old(self).pending_control@
            && final(self).used == old(self).used && bv(*final(self)) == bv(*old(self)),
        wf(*final(self)),
{ proof { reveal(wfs); } 
        let Some(position) = self
            .pending_release.position_of(|pending| -> (__r: bool) ensures __r == (pending.packet_id == packet_id) { pending.packet_id == packet_id })
        else {
            return false;
        };
        self.pending_release.remove(position);
        proof { lemma_first_rel(old(self).pending_release@, packet_id, position as int); }

        true
    }

#[verifier::spinoff_prover]
fn has_pending_release(&self, packet_id: u16) -> (r: bool)
    ensures
        r == has_rel(self.pending_release@, packet_id),
{ proof { reveal(wfs); } 
        self.pending_release.any_of(|pending| -> (__r: bool) ensures __r == (pending.packet_id == packet_id) { pending.packet_id == packet_id })
    }

#[verifier::spinoff_prover]
fn mark_retained_dup(&mut self)
    requires
        wf(*old(self)),
    ensures
        final(self).retained@ == old(self).retained@ && same_queues(*final(self), *old(self)) && final(self).used == old(self).used
            && bv(*final(self)).len() == bv(*old(self)).len(),
        forall|k: int| 0 <= k < bv(*old(self)).len() && !is_first_byte(old(self).retained@, k) ==> #[trigger] bv(*final(self))[k] == bv(*old(self))[k],
        forall|k: int| 0 <= k < bv(*old(self)).len() && is_first_byte(old(self).retained@, k) ==> #[trigger] bv(*final(self))[k] == bv(*old(self))[k] | 8u8,
        wf(*final(self)),
{ proof { reveal(wfs); } 
        let mut __i1: usize = 0;
        while __i1 < self.retained.len() 
            invariant
                __i1 <= self.retained@.len(),
                self.retained@ == old(self).retained@,
                same_queues(*self, *old(self)), self.used == old(self).used,
                bv(*self).len() == bv(*old(self)).len(),
                wf(*old(self)),
                forall|k: int| 0 <= k < bv(*self).len() ==> #[trigger] bv(*self)[k] ==
                    (if is_first_byte(old(self).retained@.subrange(0, __i1 as int), k) { bv(*old(self))[k] | 8u8 } else { bv(*old(self))[k] }),
            decreases self.retained@.len() - __i1
{ proof { reveal(wfs); } 
            let entry = self.retained.at(__i1);
            proof {
                let r = old(self).retained@;
                assert(r[__i1 as int].offset + r[__i1 as int].len <= old(self).used);
                assert(1u8 << 3 == 8u8) by (bit_vector);
                lemma_first_byte_step(r, __i1 as int);
            }

            self.buf[entry.offset] |= 1 << 3;
            proof {
                let r = old(self).retained@;
                assert forall|k: int| 0 <= k < bv(*self).len() implies #[trigger] bv(*self)[k] ==
                    (if is_first_byte(r.subrange(0, __i1 as int + 1), k) { bv(*old(self))[k] | 8u8 } else { bv(*old(self))[k] }) by {
                    lemma_first_byte_step(r, __i1 as int);
                }
            }

            __i1 += 1;
        }
    
        proof { assert(old(self).retained@.subrange(0, old(self).retained@.len() as int) =~= old(self).retained@); }

}

#[verifier::spinoff_prover]
fn mark_retained_dup__d6(&mut self)
    requires
        wf(*old(self)),
    ensures
        final(self).retained@ == old(self).retained@ && same_queues(*final(self), *old(self)) && final(self).used == old(self).used
            && bv(*final(self)).len() == bv(*old(self)).len(),
        forall|k: int| 0 <= k < bv(*old(self)).len() && !is_first_byte(old(self).retained@, k) ==> #[trigger] bv(*final(self))[k] == bv(*old(self))[k],
        forall|k: int| 0 <= k < bv(*old(self)).len() && is_first_byte(old(self).retained@, k) ==> #[trigger] bv(*final(self))[k] == bv(*old(self))[k] | 8u8,
        forall|k: int| 0 <= k < bv(*old(self)).len() && is_first_byte(old(self).retained@, k) && (bv(*old(self))[k] >> 4u8) != 3u8 ==> #[trigger] bv(*final(self))[k] == bv(*old(self))[k],
        wf(*final(self)),
{ proof { reveal(wfs); } 
        let mut __i1: usize = 0;
        while __i1 < self.retained.len() 
            invariant
                __i1 <= self.retained@.len(),
                self.retained@ == old(self).retained@,
                same_queues(*self, *old(self)), self.used == old(self).used,
                bv(*self).len() == bv(*old(self)).len(),
                wf(*old(self)),
                forall|k: int| 0 <= k < bv(*self).len() ==> #[trigger] bv(*self)[k] ==
                    (if is_first_byte(old(self).retained@.subrange(0, __i1 as int), k) { bv(*old(self))[k] | 8u8 } else { bv(*old(self))[k] }),
            decreases self.retained@.len() - __i1
{ proof { reveal(wfs); } 
            let entry = self.retained.at(__i1);
            proof {
                let r = old(self).retained@;
                assert(r[__i1 as int].offset + r[__i1 as int].len <= old(self).used);
                assert(1u8 << 3 == 8u8) by (bit_vector);
                lemma_first_byte_step(r, __i1 as int);
            }

            self.buf[entry.offset] |= 1 << 3;
            proof {
                let r = old(self).retained@;
                assert forall|k: int| 0 <= k < bv(*self).len() implies #[trigger] bv(*self)[k] ==
                    (if is_first_byte(r.subrange(0, __i1 as int + 1), k) { bv(*old(self))[k] | 8u8 } else { bv(*old(self))[k] }) by {
                    lemma_first_byte_step(r, __i1 as int);
                }
            }

            __i1 += 1;
        }
    
        proof { assert(old(self).retained@.subrange(0, old(self).retained@.len() as int) =~= old(self).retained@); }

}

#[verifier::spinoff_prover]
fn retained_packet(&self, offset: usize, len: usize) -> (r: &[u8])
    requires
        offset + len <= bv(*self).len() && bv(*self).len() <= usize::MAX,
    ensures
        r@ == bv(*self).subrange(offset as int, offset + len),
{ proof { reveal(wfs); } 
        &self.buf[offset..offset + len]
    }

#[verifier::spinoff_prover]
fn retain_packet(
        &mut self,
        packet_id: u16,
        offset: usize,
        len: usize,
    ) -> (r: Result<(), ProtocolError>)
    requires
        wf(*old(self)),
        old(self).used <= offset && offset + len <= bv(*old(self)).len() && len >= 1,
    ensures
        old(self).retained@.len() < MAX_RETAINED ==> r is Ok
            && final(self).retained@ == old(self).retained@.push(RetainedPacket { packet_id, offset, len, state: SendState::Write { written: 0 } })
            && final(self).used == offset + len,
        old(self).retained@.len() >= MAX_RETAINED ==> r == Err::<(), ProtocolError>(ProtocolError::InflightMetadataExhausted)
            && final(self).retained@ == old(self).retained@ && final(self).used == old(self).used,
        same_queues(*final(self), *old(self)) && bv(*final(self)) == bv(*old(self)),
        wf(*final(self)),
{ proof { reveal(wfs); } 
        (match (match self.retained
            .push(RetainedPacket {
                packet_id,
                offset,
                len,
                state: SendState::Write { written: 0 },
            }) { Ok(__v) => Ok(__v), Err(_) => Err(ProtocolError::InflightMetadataExhausted) }) { Ok(__v) => __v, Err(__e) => return Err(From::from(__e)) });
        self.used = self.used.max(offset + len);
        Ok(())
    }

#[verifier::spinoff_prover]
fn set_control_written(
        &mut self,
        action: ControlAction,
        written: usize,
        len: usize,
    ) -> (r: bool)
    requires
        wf(*old(self)),
        len == ctl_len(action),
    ensures
        r == has_ctl(old(self).pending_control@, action),
        r ==> final(self).pending_control@ == old(self).pending_control@.update(first_ctl(old(self).pending_control@, action),
                PendingControl { action, state: sw(written, len) }),
        !r ==> final(self).pending_control@ == old(self).pending_control@,
        final(self).retained@ == old(self).retained@ && final(self).pending_release@ == old(self).pending_release@
            && final(self).used == old(self).used && bv(*final(self)) == bv(*old(self)),
        wf(*final(self)),
{ proof { reveal(wfs); } 
        let __p1 = self.pending_control.position_of(|entry| -> (__r: bool) ensures __r == (entry.action == action) { entry.action == action });
        if let Some(entry) = (match __p1 { Some(__q) => Some(self.pending_control.at_mut(__q)), None => None })
        {
            proof { lemma_first_ctl(old(self).pending_control@, action, __p1->Some_0 as int); }

            entry.state.set_written(written, len);
            true
        } else {
            false
        }
    }

#[verifier::spinoff_prover]
fn flush_control(&mut self, action: ControlAction) -> (found: bool)
    requires
        wf(*old(self)),
    ensures
        found == has_ctl(old(self).pending_control@, action),
        found ==> final(self).pending_control@ =~= old(self).pending_control@.remove(first_ctl(old(self).pending_control@, action)),
        !found ==> final(self).pending_control@ =~= old(self).pending_control@,
        final(self).retained@ == old(self).retained@ && final(self).pending_release@ == old(self).pending_release@
            && final(self).used == old(self).used && bv(*final(self)) == bv(*old(self)),
        wf(*final(self)),
{ proof { reveal(wfs); } 
        let __p1 = self.pending_control.position_of(|entry| -> (__r: bool) ensures __r == (entry.action == action) { entry.action == action });
        let found = if let Some(entry) = (match __p1 { Some(__q) => Some(self.pending_control.at_mut(__q)), None => None })
        {
            proof { lemma_first_ctl(old(self).pending_control@, action, __p1->Some_0 as int); }

            entry.state = SendState::Sent;
            true
        } else {
            false
        };
        let __f1 = |entry: &PendingControl| -> (__r: bool) ensures __r == (entry.state != SendState::Sent) { entry.state != SendState::Sent };
        self.pending_control
            .retain(__f1);
        proof {
            let c0 = old(self).pending_control@;
            if found {
                let k = first_ctl(c0, action);
                let c1 = c0.update(k, PendingControl { action: c0[k].action, state: SendState::Sent });
                let keep = choose|keep: Seq<bool>| keep.len() == c1.len()
                    && (forall|i: int| 0 <= i < keep.len() ==> __f1.ensures((&c1[i],), #[trigger] keep[i]))
                    && self.pending_control@ == mask_filter(c1, keep);
                assert forall|i: int| 0 <= i < c1.len() && i != k implies #[trigger] keep[i] by { assert(c1[i] == c0[i]); }
                lemma_mask_remove(c1, keep, k);
            } else {
                let keep = choose|keep: Seq<bool>| keep.len() == c0.len()
                    && (forall|i: int| 0 <= i < keep.len() ==> __f1.ensures((&c0[i],), #[trigger] keep[i]))
                    && self.pending_control@ == mask_filter(c0, keep);
                lemma_mask_all(c0, keep);
            }
        }

        found
    }

#[verifier::spinoff_prover]
fn set_retained_written(
        &mut self,
        packet_id: u16,
        written: usize,
        len: usize,
    ) -> (r: bool)
    requires
        wf(*old(self)),
        has_ret(old(self).retained@, packet_id) ==> len == old(self).retained@[first_ret(old(self).retained@, packet_id)].len,
    ensures
        r == has_ret(old(self).retained@, packet_id),
        r ==> final(self).retained@ == old(self).retained@.update(first_ret(old(self).retained@, packet_id),
                RetainedPacket { state: sw(written, len), ..old(self).retained@[first_ret(old(self).retained@, packet_id)] }),
        !r ==> final(self).retained@ == old(self).retained@,
        same_queues(*final(self), *old(self)) && final(self).used == old(self).used && bv(*final(self)) == bv(*old(self)),
        wf(*final(self)),
{ proof { reveal(wfs); } 
        let __p1 = self.retained.position_of(|entry| -> (__r: bool) ensures __r == (entry.packet_id == packet_id) { entry.packet_id == packet_id });
        if let Some(entry) = (match __p1 { Some(__q) => Some(self.retained.at_mut(__q)), None => None })
        {
            proof { lemma_first_ret(old(self).retained@, packet_id, __p1->Some_0 as int); }

            entry.state.set_written(written, len);
            true
        } else {
            false
        }
    }

#[verifier::spinoff_prover]
fn flush_retained(&mut self, packet_id: u16) -> (r: bool)
    requires
        wf(*old(self)),
    ensures
        r == has_ret(old(self).retained@, packet_id),
        r ==> final(self).retained@ == old(self).retained@.update(first_ret(old(self).retained@, packet_id),
                RetainedPacket { state: SendState::Sent, ..old(self).retained@[first_ret(old(self).retained@, packet_id)] }),
        !r ==> final(self).retained@ == old(self).retained@,
        same_queues(*final(self), *old(self)) && final(self).used == old(self).used && bv(*final(self)) == bv(*old(self)),
        wf(*final(self)),
{ proof { reveal(wfs); } 
        let __p1 = self.retained.position_of(|entry| -> (__r: bool) ensures __r == (entry.packet_id == packet_id) { entry.packet_id == packet_id });
        if let Some(entry) = (match __p1 { Some(__q) => Some(self.retained.at_mut(__q)), None => None })
        {
            proof { lemma_first_ret(old(self).retained@, packet_id, __p1->Some_0 as int); }

            entry.state = SendState::Sent;
            true
        } else {
            false
        }
    }

#[verifier::spinoff_prover]
fn set_release_written(
        &mut self,
        packet_id: u16,
        written: usize,
        len: usize,
    ) -> (r: bool)
    requires
        wf(*old(self)),
        len == REL_LEN,
    ensures
        r == has_rel(old(self).pending_release@, packet_id),
        r ==> final(self).pending_release@ == old(self).pending_release@.update(first_rel(old(self).pending_release@, packet_id),
                PendingRelease { state: sw(written, len), ..old(self).pending_release@[first_rel(old(self).pending_release@, packet_id)] }),
        !r ==> final(self).pending_release@ == old(self).pending_release@,
        final(self).retained@ == old(self).retained@ && final(self).pending_control@ == old(self).pending_control@
            && final(self).used == old(self).used && bv(*final(self)) == bv(*old(self)),
        wf(*final(self)),
{ proof { reveal(wfs); } 
        let __p1 = self.pending_release.position_of(|entry| -> (__r: bool) ensures __r == (entry.packet_id == packet_id) { entry.packet_id == packet_id });
        if let Some(entry) = (match __p1 { Some(__q) => Some(self.pending_release.at_mut(__q)), None => None })
        {
            proof { lemma_first_rel(old(self).pending_release@, packet_id, __p1->Some_0 as int); }

            entry.state.set_written(written, len);
            true
        } else {
            false
        }
    }

#[verifier::spinoff_prover]
fn flush_release(&mut self, packet_id: u16) -> (r: bool)
    requires
        wf(*old(self)),
    ensures
        r == has_rel(old(self).pending_release@, packet_id),
        r ==> final(self).pending_release@ == old(self).pending_release@.update(first_rel(old(self).pending_release@, packet_id),
                PendingRelease { state: SendState::Sent, ..old(self).pending_release@[first_rel(old(self).pending_release@, packet_id)] }),
        !r ==> final(self).pending_release@ == old(self).pending_release@,
        final(self).retained@ == old(self).retained@ && final(self).pending_control@ == old(self).pending_control@
            && final(self).used == old(self).used && bv(*final(self)) == bv(*old(self)),
        wf(*final(self)),
{ proof { reveal(wfs); } 
        let __p1 = self.pending_release.position_of(|entry| -> (__r: bool) ensures __r == (entry.packet_id == packet_id) { entry.packet_id == packet_id });
        if let Some(entry) = (match __p1 { Some(__q) => Some(self.pending_release.at_mut(__q)), None => None })
        {
            proof { lemma_first_rel(old(self).pending_release@, packet_id, __p1->Some_0 as int); }

            entry.state = SendState::Sent;
            true
        } else {
            false
        }
    }

#[verifier::spinoff_prover]
fn next_step(&self) -> (r: Option<OutboundStep>)
    ensures
        r == next_step_spec(*self),
{ proof { reveal(wfs); } 
        let __arr4 = [true, false]; let mut __i4: usize = 0;
        while __i4 < 2 
            invariant
                __i4 <= 2,
                __arr4[0] == true && __arr4[1] == false,
                __i4 >= 1 ==> step_for(*self, true) is None,
                __i4 >= 2 ==> step_for(*self, false) is None,
            decreases 2 - __i4
{ proof { reveal(wfs); } 
            let in_progress = __arr4[__i4];
            let mut __i1: usize = 0;
        while __i1 < self.pending_control.len() 
                invariant
                    __i1 <= self.pending_control@.len(), __i4 < 2, in_progress == __arr4[__i4 as int], __arr4[0] == true && __arr4[1] == false,
                    __i4 >= 1 ==> step_for(*self, true) is None,
                    forall|j: int| 0 <= j < __i1 ==> !prio((#[trigger] self.pending_control@[j]).state, in_progress),
                decreases self.pending_control@.len() - __i1
{ proof { reveal(wfs); } 
            let entry = self.pending_control.at(__i1);
                if entry.state.matches_priority(in_progress) {
                    proof { lemma_ctl_idx(self.pending_control@, in_progress, __i1 as int); }

                    return Some(OutboundStep::Control(ControlStep {
                        action: entry.action,
                        state: entry.state,
                    }));
                }
                __i1 += 1;
        }
            let mut __i2: usize = 0;
        while __i2 < self.pending_release.len() 
                invariant
                    __i2 <= self.pending_release@.len(), __i4 < 2, in_progress == __arr4[__i4 as int], __arr4[0] == true && __arr4[1] == false,
                    __i4 >= 1 ==> step_for(*self, true) is None,
                    forall|j: int| 0 <= j < self.pending_control@.len() ==> !prio((#[trigger] self.pending_control@[j]).state, in_progress),
                    forall|j: int| 0 <= j < __i2 ==> !prio((#[trigger] self.pending_release@[j]).state, in_progress),
                decreases self.pending_release@.len() - __i2
{ proof { reveal(wfs); } 
            let entry = self.pending_release.at(__i2);
                if entry.state.matches_priority(in_progress) {
                    proof { lemma_ctl_idx_none(self.pending_control@, in_progress); lemma_rel_idx(self.pending_release@, in_progress, __i2 as int); }

                    return Some(OutboundStep::Release(ReleaseStep {
                        packet_id: entry.packet_id,
                        reason: entry.reason,
                        state: entry.state,
                    }));
                }
                __i2 += 1;
        }
            let mut __i3: usize = 0;
        while __i3 < self.retained.len() 
                invariant
                    __i3 <= self.retained@.len(), __i4 < 2, in_progress == __arr4[__i4 as int], __arr4[0] == true && __arr4[1] == false,
                    __i4 >= 1 ==> step_for(*self, true) is None,
                    forall|j: int| 0 <= j < self.pending_control@.len() ==> !prio((#[trigger] self.pending_control@[j]).state, in_progress),
                    forall|j: int| 0 <= j < self.pending_release@.len() ==> !prio((#[trigger] self.pending_release@[j]).state, in_progress),
                    forall|j: int| 0 <= j < __i3 ==> !prio((#[trigger] self.retained@[j]).state, in_progress),
                decreases self.retained@.len() - __i3
{ proof { reveal(wfs); } 
            let entry = self.retained.at(__i3);
                if entry.state.matches_priority(in_progress) {
                    proof { lemma_ctl_idx_none(self.pending_control@, in_progress); lemma_rel_idx_none(self.pending_release@, in_progress); lemma_ret_idx(self.retained@, in_progress, __i3 as int); }

                    return Some(OutboundStep::Retained(RetainedStep {
                        packet_id: entry.packet_id,
                        offset: entry.offset,
                        len: entry.len,
                        state: entry.state,
                    }));
                }
                __i3 += 1;
        }
            proof { lemma_ctl_idx_none(self.pending_control@, in_progress); lemma_rel_idx_none(self.pending_release@, in_progress); lemma_ret_idx_none(self.retained@, in_progress); }

            __i4 += 1;
        }
        None
    }

#[verifier::spinoff_prover]
fn arm_replay(&mut self)
    requires
        wf(*old(self)),
    ensures
        final(self).pending_control@.len() == old(self).pending_control@.len()
        && forall|i: int| 0 <= i < old(self).pending_control@.len() ==> (#[trigger] final(self).pending_control@[i]) ==
            fresh_ctl(old(self).pending_control@[i]),
        final(self).pending_release@.len() == old(self).pending_release@.len()
        && forall|i: int| 0 <= i < old(self).pending_release@.len() ==> (#[trigger] final(self).pending_release@[i]) ==
            fresh_rel(old(self).pending_release@[i]),
        final(self).retained@.len() == old(self).retained@.len()
        && forall|i: int| 0 <= i < old(self).retained@.len() ==> (#[trigger] final(self).retained@[i]) ==
            fresh_ret(old(self).retained@[i]),
        final(self).used == old(self).used && bv(*final(self)).len() == bv(*old(self)).len(),
        forall|k: int| 0 <= k < bv(*old(self)).len() && !is_first_byte(old(self).retained@, k) ==> #[trigger] bv(*final(self))[k] == bv(*old(self))[k],
        forall|k: int| 0 <= k < bv(*old(self)).len() && is_first_byte(old(self).retained@, k) ==> #[trigger] bv(*final(self))[k] == bv(*old(self))[k] | 8u8,
        wf(*final(self)),
{ proof { reveal(wfs); } 
        if !self.has_pending_state() {
            return;
        }

        self.mark_retained_dup();
        let mut __i1: usize = 0;
        while __i1 < self.pending_control.len() 
            invariant
                __i1 <= self.pending_control@.len(),
                self.pending_control@.len() == old(self).pending_control@.len(),
                forall|i: int| 0 <= i < __i1 ==> (#[trigger] self.pending_control@[i]) == fresh_ctl(old(self).pending_control@[i]),
                forall|i: int| __i1 <= i < self.pending_control@.len() ==> (#[trigger] self.pending_control@[i]) == old(self).pending_control@[i],
                self.pending_release@ == old(self).pending_release@, self.retained@ == old(self).retained@, self.used == old(self).used,
                wf(*old(self)), bv(*self).len() == bv(*old(self)).len(),
                forall|k: int| 0 <= k < bv(*old(self)).len() && !is_first_byte(old(self).retained@, k) ==> #[trigger] bv(*self)[k] == bv(*old(self))[k],
                forall|k: int| 0 <= k < bv(*old(self)).len() && is_first_byte(old(self).retained@, k) ==> #[trigger] bv(*self)[k] == bv(*old(self))[k] | 8u8,
            decreases self.pending_control@.len() - __i1
{ proof { reveal(wfs); } 
            let entry = self.pending_control.at_mut(__i1);
            entry.state = SendState::Write { written: 0 };
            __i1 += 1;
        }
        let mut __i2: usize = 0;
        while __i2 < self.retained.len() 
            invariant
                __i2 <= self.retained@.len(),
                self.retained@.len() == old(self).retained@.len(),
                forall|i: int| 0 <= i < __i2 ==> (#[trigger] self.retained@[i]) == fresh_ret(old(self).retained@[i]),
                forall|i: int| __i2 <= i < self.retained@.len() ==> (#[trigger] self.retained@[i]) == old(self).retained@[i],
                self.pending_control@.len() == old(self).pending_control@.len(),
                forall|i: int| 0 <= i < old(self).pending_control@.len() ==> (#[trigger] self.pending_control@[i]) == fresh_ctl(old(self).pending_control@[i]),
                self.pending_release@ == old(self).pending_release@, self.used == old(self).used,
                wf(*old(self)), bv(*self).len() == bv(*old(self)).len(),
                forall|k: int| 0 <= k < bv(*old(self)).len() && !is_first_byte(old(self).retained@, k) ==> #[trigger] bv(*self)[k] == bv(*old(self))[k],
                forall|k: int| 0 <= k < bv(*old(self)).len() && is_first_byte(old(self).retained@, k) ==> #[trigger] bv(*self)[k] == bv(*old(self))[k] | 8u8,
            decreases self.retained@.len() - __i2
{ proof { reveal(wfs); } 
            let entry = self.retained.at_mut(__i2);
            entry.state = SendState::Write { written: 0 };
            __i2 += 1;
        }
        let mut __i3: usize = 0;
        while __i3 < self.pending_release.len() 
            invariant
                __i3 <= self.pending_release@.len(),
                self.pending_release@.len() == old(self).pending_release@.len(),
                forall|i: int| 0 <= i < __i3 ==> (#[trigger] self.pending_release@[i]) == fresh_rel(old(self).pending_release@[i]),
                forall|i: int| __i3 <= i < self.pending_release@.len() ==> (#[trigger] self.pending_release@[i]) == old(self).pending_release@[i],
                self.retained@.len() == old(self).retained@.len(),
                forall|i: int| 0 <= i < old(self).retained@.len() ==> (#[trigger] self.retained@[i]) == fresh_ret(old(self).retained@[i]),
                self.pending_control@.len() == old(self).pending_control@.len(),
                forall|i: int| 0 <= i < old(self).pending_control@.len() ==> (#[trigger] self.pending_control@[i]) == fresh_ctl(old(self).pending_control@[i]),
                self.used == old(self).used,
                wf(*old(self)), bv(*self).len() == bv(*old(self)).len(),
                forall|k: int| 0 <= k < bv(*old(self)).len() && !is_first_byte(old(self).retained@, k) ==> #[trigger] bv(*self)[k] == bv(*old(self))[k],
                forall|k: int| 0 <= k < bv(*old(self)).len() && is_first_byte(old(self).retained@, k) ==> #[trigger] bv(*self)[k] == bv(*old(self))[k] | 8u8,
            decreases self.pending_release@.len() - __i3
{ proof { reveal(wfs); } 
            let entry = self.pending_release.at_mut(__i3);
            entry.state = SendState::Write { written: 0 };
            __i3 += 1;
        }
    
        proof {
            let f = self.retained@; let o = old(self).retained@;
            assert forall|i: int, j: int| 0 <= i < j < f.len() implies (#[trigger] f[i]).offset + f[i].len <= (#[trigger] f[j]).offset by {
                assert(o[i].offset + o[i].len <= o[j].offset);
            }
            assert forall|i: int| 0 <= i < f.len() implies (#[trigger] f[i]).offset + f[i].len <= self.used by {
                assert(o[i].offset + o[i].len <= old(self).used);
            }
        }

}

#[verifier::spinoff_prover]
#[verifier::rlimit(80)]
fn encode_packet<T>(&mut self, packet: &T) -> (r: Result<(usize, usize), ProtocolError>)
where
        T: Encodable,
    requires
        wf(*old(self)),
    ensures
        same_entries(bv(*final(self)), final(self).retained@, bv(*old(self)), old(self).retained@),
        same_queues(*final(self), *old(self)) && bv(*final(self)).len() == bv(*old(self)).len(),
        ret_sig(final(self).retained@) == ret_sig(old(self).retained@),
        wf(*final(self)) && compacted(*final(self)),
        r matches Ok((off, len)) ==> final(self).used <= off && off + len <= bv(*final(self)).len() && len >= 2
            && bv(*final(self)).subrange(off as int, off + len) == packet.enc() && framed(packet.enc()),
        r matches Err(e) ==> e is Encode,
{ proof { reveal(wfs); } 
        self.compact();
        let start = self.used;
        let (offset, packet) = (match MqttSerializer::encode_with_offset(&mut self.buf[start..], packet) { Ok(__v) => __v, Err(__e) => return Err(From::from(__e)) });
        Ok((start + offset, packet.len()))
    }

#[verifier::spinoff_prover]
#[verifier::rlimit(80)]
fn encode_publish<P: ToPayload, E>(
        &mut self,
        header: &PublishHeader<'_>,
        payload: P,
    ) -> (r: Result<(usize, usize), PubError<P::Error, E>>)
    requires
        wf(*old(self)),
    ensures
        same_entries(bv(*final(self)), final(self).retained@, bv(*old(self)), old(self).retained@),
        same_queues(*final(self), *old(self)) && bv(*final(self)).len() == bv(*old(self)).len(),
        ret_sig(final(self).retained@) == ret_sig(old(self).retained@),
        wf(*final(self)) && compacted(*final(self)),
        r matches Ok((off, len)) ==> final(self).used <= off && off + len <= bv(*final(self)).len() && len >= 2
            && bv(*final(self)).subrange(off as int, off + len) == enc_publish(*header, payload) && framed(enc_publish(*header, payload)),
        r matches Err(PubError::Session(e)) ==> (e == Error::<E>::Resource(ResourceError::BufferTooSmall) || e is InvalidRequest),
{ proof { reveal(wfs); } 
        self.compact();
        let start = self.used;
        let (offset, packet) =
            (match MqttSerializer::encode_publish_with_offset(&mut self.buf[start..], header, payload) { Ok(__v) => __v, Err(__e) => return Err(From::from(__e)) });
        Ok((start + offset, packet.len()))
    }
}


// ---------------------------------------------------------------- 9-byte control packets
/// Maximum Packet Size check shared by every sender: `len > max`
pub open spec fn too_large(mps: Option<u32>, len: usize) -> bool {
    match mps { Some(max) => len > max as usize, None => false }
}

pub open spec fn id_hi(id: u16) -> u8 { (id >> 8) as u8 }
pub open spec fn id_lo(id: u16) -> u8 { (id & 0xff) as u8 }
/// Appendix A.2: PUBACK/PUBREC/PUBCOMP always carry the reason byte, PINGREQ is two bytes
pub open spec fn ctl_bytes(a: ControlAction) -> Seq<u8> {
    match a {
        ControlAction::PubAck { packet_id, reason } => seq![0x40u8, 3u8, id_hi(packet_id), id_lo(packet_id), rc_u8(reason)],
        ControlAction::PubRec { packet_id, reason } => seq![0x50u8, 3u8, id_hi(packet_id), id_lo(packet_id), rc_u8(reason)],
        ControlAction::PubComp { packet_id, reason } => seq![0x70u8, 3u8, id_hi(packet_id), id_lo(packet_id), rc_u8(reason)],
        ControlAction::PingReq => seq![0xC0u8, 0u8],
    }
}
pub open spec fn rel_bytes(id: u16, reason: ReasonCode) -> Seq<u8> {
    seq![0x62u8, 3u8, id_hi(id), id_lo(id), rc_u8(reason)]
}
pub proof fn lemma_ctl_len(a: ControlAction) ensures ctl_bytes(a).len() == ctl_len(a) {}

#[verifier::external_body]
#[verifier::spinoff_prover]
fn encode_control_packet(buffer: &mut [u8], packet: ControlAction) -> (r: Result<&[u8], ProtocolError>)
    ensures
        final(buffer)@.len() == old(buffer)@.len(),
        old(buffer)@.len() >= CONTROL_PACKET_LEN ==> (r matches Ok(b) && b@ == ctl_bytes(packet)),
        r matches Err(e) ==> e is Encode,
{ unimplemented!() }

#[verifier::external_body]
#[verifier::spinoff_prover]
fn encode_pubrel(
    buffer: &mut [u8],
    packet_id: u16,
    reason: ReasonCode,
) -> (r: Result<&[u8], ProtocolError>)
    ensures
        final(buffer)@.len() == old(buffer)@.len(),
        old(buffer)@.len() >= CONTROL_PACKET_LEN ==> (r matches Ok(b) && b@ == rel_bytes(packet_id, reason)),
        r matches Err(e) ==> e is Encode,
{ unimplemented!() }

#[verifier::spinoff_prover]
fn require_packet_size(maximum_packet_size: Option<u32>, len: usize) -> (r: Result<(), ProtocolError>)
    ensures
        r == (if too_large(maximum_packet_size, len) { Err::<(), ProtocolError>(ProtocolError::PacketTooLarge) } else { Ok::<(), ProtocolError>(()) }),
{
    if (match maximum_packet_size { Some(max) => len > max as usize, None => false }) {
        return Err(ProtocolError::PacketTooLarge);
    }
    Ok(())
}

#[verifier::spinoff_prover]
fn serialize_control_packet<E>(
    buffer: &mut [u8],
    packet: ControlAction,
    maximum_packet_size: Option<u32>,
) -> (r: Result<&[u8], Error<E>>)
    requires
        old(buffer)@.len() >= CONTROL_PACKET_LEN,
    ensures
        too_large(maximum_packet_size, ctl_len(packet) as usize) ==> r == Err::<&[u8], Error<E>>(Error::Resource(ResourceError::PacketTooLarge)),
        !too_large(maximum_packet_size, ctl_len(packet) as usize) ==> (r matches Ok(b) && b@ == ctl_bytes(packet)),
{
    let bytes = (match encode_control_packet(buffer, packet) { Ok(__v) => __v, Err(__e) => return Err(From::from(__e)) });
    if (match maximum_packet_size { Some(max) => bytes.len() > max as usize, None => false }) {
        return Err(Error::Resource(ResourceError::PacketTooLarge));
    }
    Ok(bytes)
}

#[verifier::spinoff_prover]
fn check_control_packet_size(
    maximum_packet_size: Option<u32>,
    action: ControlAction,
) -> (r: Result<(), ProtocolError>)
    ensures
        r == (if too_large(maximum_packet_size, ctl_len(action) as usize) { Err::<(), ProtocolError>(ProtocolError::PacketTooLarge) } else { Ok::<(), ProtocolError>(()) }),
{
    let mut buffer = [0u8; CONTROL_PACKET_LEN];
    let len = (match encode_control_packet(&mut buffer, action) { Ok(__v) => __v, Err(__e) => return Err(From::from(__e)) }).len();
    require_packet_size(maximum_packet_size, len)
}

#[verifier::spinoff_prover]
fn check_pubrel_size(
    maximum_packet_size: Option<u32>,
    packet_id: u16,
    reason: ReasonCode,
) -> (r: Result<(), ProtocolError>)
    ensures
        r == (if too_large(maximum_packet_size, REL_LEN as usize) { Err::<(), ProtocolError>(ProtocolError::PacketTooLarge) } else { Ok::<(), ProtocolError>(()) }),
{
    let mut buffer = [0u8; CONTROL_PACKET_LEN];
    let len = (match encode_pubrel(&mut buffer, packet_id, reason) { Ok(__v) => __v, Err(__e) => return Err(From::from(__e)) }).len();
    require_packet_size(maximum_packet_size, len)
}

#[verifier::spinoff_prover]
fn serialize_pubrel<E>(
    buffer: &mut [u8],
    packet_id: u16,
    reason: ReasonCode,
    maximum_packet_size: Option<u32>,
) -> (r: Result<&[u8], Error<E>>)
    requires
        old(buffer)@.len() >= CONTROL_PACKET_LEN,
    ensures
        too_large(maximum_packet_size, REL_LEN as usize) ==> r == Err::<&[u8], Error<E>>(Error::Resource(ResourceError::PacketTooLarge)),
        !too_large(maximum_packet_size, REL_LEN as usize) ==> (r matches Ok(b) && b@ == rel_bytes(packet_id, reason)),
{
    let bytes = (match encode_pubrel(buffer, packet_id, reason) { Ok(__v) => __v, Err(__e) => return Err(From::from(__e)) });
    if (match maximum_packet_size { Some(max) => bytes.len() > max as usize, None => false }) {
        return Err(Error::Resource(ResourceError::PacketTooLarge));
    }
    Ok(bytes)
}

} // verus!

// ======================================================================================
// 20_state: src/mqtt_client/session/state.rs — RuntimeState, SessionData
// ======================================================================================
verus! {

pub const ROUND_TRIP_TIMEOUT_MS: u64 = 5_000;
pub const MAX_INBOUND_QOS2: usize = 8;
pub struct RuntimeState {
    pub session_resumed: bool,
    pub keepalive_interval: Duration,
    pub send_quota: u16,
    pub max_send_quota: u16,
    pub maximum_packet_size: Option<u32>,
    pub max_qos: Option<QoS>,
    pub next_ping: Option<Instant>,
    pub ping_timeout: Option<Instant>,
}

/// Appendix A.4: the interval after which a PINGREQ is due, in ticks (None iff keep-alive 0)
pub open spec fn send_interval_ms(keepalive_ms: nat) -> nat {
    let lead = if 5000 <= keepalive_ms / 2 { 5000 } else { keepalive_ms / 2 };
    (keepalive_ms - lead) as nat
}

/// C10: the instant at which the next PINGREQ becomes due when a packet completed at `now`
pub open spec fn ping_deadline(keepalive: Duration, now: Instant) -> Option<Instant> {
    if keepalive.ticks() / 1000 == 0 { None }
    else { Some(Instant { t: Ghost((now.ticks() + send_interval_ms(keepalive.ticks() / 1000) * 1000) as nat) }) }
}

impl RuntimeState {
#[verifier::spinoff_prover]
fn reset_transport(&mut self)
    ensures
        final(self).session_resumed == false && final(self).next_ping is None && final(self).ping_timeout is None,
        final(self).keepalive_interval == old(self).keepalive_interval && final(self).send_quota == old(self).send_quota
            && final(self).max_send_quota == old(self).max_send_quota && final(self).maximum_packet_size == old(self).maximum_packet_size
            && final(self).max_qos == old(self).max_qos,
{
        self.session_resumed = false;
        self.next_ping = None;
        self.ping_timeout = None;
    }

#[verifier::spinoff_prover]
fn keepalive_send_interval(&self) -> (r: Option<Duration>)
    requires
        self.keepalive_interval.ticks() / 1000 <= u64::MAX,
    ensures
        self.keepalive_interval.ticks() / 1000 == 0 <==> r is None,
        r matches Some(d) ==> d.ticks() == send_interval_ms(self.keepalive_interval.ticks() / 1000) * 1000,
        r matches Some(d) ==> 0 < d.ticks() <= self.keepalive_interval.ticks(),
{
        let keepalive_ms = self.keepalive_interval.as_millis();
        if keepalive_ms == 0 {
            return None;
        }

        let lead_ms = ROUND_TRIP_TIMEOUT_MS.min(keepalive_ms / 2);
        Some(Duration::from_millis(keepalive_ms - lead_ms))
    }

#[verifier::spinoff_prover]
fn note_outbound_activity(&mut self, now: Instant)
    requires
        old(self).keepalive_interval.ticks() / 1000 <= u64::MAX,
    ensures
        old(self).keepalive_interval.ticks() / 1000 == 0 ==> final(self).next_ping is None,
        old(self).keepalive_interval.ticks() / 1000 != 0 ==> (final(self).next_ping matches Some(t)
            && t.ticks() == now.ticks() + send_interval_ms(old(self).keepalive_interval.ticks() / 1000) * 1000),
        final(self).next_ping == ping_deadline(old(self).keepalive_interval, now),
        final(self).ping_timeout == old(self).ping_timeout && final(self).keepalive_interval == old(self).keepalive_interval
            && final(self).send_quota == old(self).send_quota && final(self).max_send_quota == old(self).max_send_quota
            && final(self).maximum_packet_size == old(self).maximum_packet_size && final(self).max_qos == old(self).max_qos
            && final(self).session_resumed == old(self).session_resumed,
{
        self.next_ping = (match self
            .keepalive_send_interval() { Some(interval) => Some(now + interval), None => None });
    }

#[verifier::spinoff_prover]
fn require_packet_size<E>(&self, len: usize) -> (r: Result<(), Error<E>>)
    ensures
        r == (if too_large(self.maximum_packet_size, len)
              { Err::<(), Error<E>>(Error::Resource(ResourceError::PacketTooLarge)) } else { Ok::<(), Error<E>>(()) }),
{
        if (match self
            .maximum_packet_size { Some(max) => len > max as usize, None => false })
        {
            return Err(Error::Resource(ResourceError::PacketTooLarge));
        }
        Ok(())
    }

#[verifier::spinoff_prover]
fn next_deadline(&self) -> (r: Option<Instant>)
    ensures
        r == (match (self.next_ping, self.ping_timeout) {
            (Some(a), Some(b)) => Some(if b.ticks() < a.ticks() { b } else { a }),
            (Some(a), None) => Some(a),
            (None, Some(b)) => Some(b),
            (None, None) => None::<Instant>,
        }),
{
        match (self.next_ping, self.ping_timeout) {
            (Some(next_ping), Some(ping_timeout)) => Some(next_ping.min(ping_timeout)),
            (Some(next_ping), None) => Some(next_ping),
            (None, Some(ping_timeout)) => Some(ping_timeout),
            (None, None) => None,
        }
    }
}


pub struct SessionData<'a> {
    pub packet_id: NonZeroU16,
    pub generation: u32,
    pub outbound: Outbound<'a>,
    pub pending_server_packet_ids: Vec<u16, MAX_INBOUND_QOS2>,
    pub session_present: bool,
}

/// the id handed out next: wraps from 65535 to 1, never 0
pub open spec fn next_id(id: u16) -> u16 { if id == 65535 { 1 } else { (id + 1) as u16 } }

/// W6 (C07): identifiers of all in-flight entries (retained, then pending release) are pairwise distinct
pub open spec fn ids_seq(r: Seq<RetainedPacket>, l: Seq<PendingRelease>) -> Seq<u16> {
    Seq::new(r.len(), |i: int| r[i].packet_id) + Seq::new(l.len(), |i: int| l[i].packet_id)
}
/// in-flight signature of the two lists: (id, length) of retained packets, (id, reason) of pending PUBRELs
pub open spec fn ret_sig(r: Seq<RetainedPacket>) -> Seq<(u16, usize)> { Seq::new(r.len(), |i: int| (r[i].packet_id, r[i].len)) }
pub open spec fn rel_sig(l: Seq<PendingRelease>) -> Seq<(u16, ReasonCode)> { Seq::new(l.len(), |i: int| (l[i].packet_id, l[i].reason)) }
pub open spec fn sig_ids(rs: Seq<(u16, usize)>, ls: Seq<(u16, ReasonCode)>) -> Seq<u16> {
    Seq::new(rs.len(), |i: int| rs[i].0) + Seq::new(ls.len(), |i: int| ls[i].0)
}
/// W6 as a predicate of the in-flight signature only (so that anything that keeps the signature keeps W6)
#[verifier::opaque]
pub open spec fn w6g(rs: Seq<(u16, usize)>, ls: Seq<(u16, ReasonCode)>) -> bool { sig_ids(rs, ls).no_duplicates() }
pub open spec fn w6s(r: Seq<RetainedPacket>, l: Seq<PendingRelease>) -> bool { w6g(ret_sig(r), rel_sig(l)) }
pub open spec fn w6(o: Outbound) -> bool { w6s(o.retained@, o.pending_release@) }
pub proof fn lemma_w6s_unfold(r: Seq<RetainedPacket>, l: Seq<PendingRelease>)
    ensures w6s(r, l) == ids_seq(r, l).no_duplicates()
{
    reveal(w6g);
    assert(sig_ids(ret_sig(r), rel_sig(l)) =~= ids_seq(r, l));
}
pub proof fn lemma_w6_empty()
    ensures forall|r: Seq<RetainedPacket>, l: Seq<PendingRelease>| r.len() == 0 && l.len() == 0 ==> #[trigger] w6s(r, l)
{
    assert forall|r: Seq<RetainedPacket>, l: Seq<PendingRelease>| r.len() == 0 && l.len() == 0 implies #[trigger] w6s(r, l) by {
        lemma_w6s_unfold(r, l);
        assert(ids_seq(r, l) =~= Seq::<u16>::empty());
    }
}
pub proof fn lemma_w6_unfold(o: Outbound) ensures w6(o) == ids_of(o).no_duplicates() { lemma_w6s_unfold(o.retained@, o.pending_release@); }

pub open spec fn sd_inv(d: SessionData) -> bool {
    wf(d.outbound) && d.packet_id.v != 0 && d.pending_server_packet_ids@.len() <= MAX_INBOUND_QOS2
        && d.pending_server_packet_ids@.no_duplicates() && w6(d.outbound)
}

/// the k-th identifier probed when starting from `start` (1..=65535, cyclic)
pub open spec fn cyc(start: u16, k: nat) -> u16 { (((start - 1 + k) % 65535) + 1) as u16 }
pub open spec fn in_use(o: Outbound, id: u16) -> bool { has_ret(o.retained@, id) || has_rel(o.pending_release@, id) }
pub proof fn lemma_cyc_zero(start: u16) requires start != 0 ensures cyc(start, 0) == start {}
pub proof fn lemma_cyc_step(start: u16, k: nat)
    requires start != 0
    ensures cyc(start, k + 1) == next_id(cyc(start, k)), cyc(start, k) != 0
{
    let a = (start - 1 + k) as int;
    assert((a + 1) % 65535 == (if a % 65535 == 65534 { 0 } else { a % 65535 + 1 })) by (nonlinear_arith) requires a >= 0;
}
/// identifiers of all in-flight entries, as one sequence (retained then release)
pub open spec fn ids_of(o: Outbound) -> Seq<u16> { ids_seq(o.retained@, o.pending_release@) }
/// pigeonhole on sequences: distinct values that all occur in `ids` are at most |ids| many
pub proof fn lemma_pigeon(xs: Seq<u16>, ids: Seq<u16>)
    requires xs.no_duplicates(), forall|i: int| 0 <= i < xs.len() ==> ids.contains(#[trigger] xs[i]),
    ensures xs.len() <= ids.len()
    decreases ids.len()
{
    if xs.len() == 0 {
    } else if ids.len() == 0 {
        assert(ids.contains(xs[0]));
    } else {
        let y = ids.last();
        let ids1 = ids.drop_last();
        if xs.contains(y) {
            let p = choose|p: int| 0 <= p < xs.len() && xs[p] == y;
            let xs1 = xs.remove(p);
            assert forall|i: int| 0 <= i < xs1.len() implies ids1.contains(#[trigger] xs1[i]) by {
                let ii = if i < p { i } else { i + 1 };
                assert(xs1[i] == xs[ii]);
                assert(xs[ii] != y);
                assert(ids.contains(xs[ii]));
                let q = choose|q: int| 0 <= q < ids.len() && ids[q] == xs[ii];
                assert(ids1[q] == xs[ii]);
            }
            assert forall|i: int, j: int| 0 <= i < xs1.len() && 0 <= j < xs1.len() && i != j implies xs1[i] != xs1[j] by {
                let ii = if i < p { i } else { i + 1 };
                let jj = if j < p { j } else { j + 1 };
                assert(xs1[i] == xs[ii] && xs1[j] == xs[jj]);
            }
            lemma_pigeon(xs1, ids1);
        } else {
            assert forall|i: int| 0 <= i < xs.len() implies ids1.contains(#[trigger] xs[i]) by {
                assert(ids.contains(xs[i]));
                let q = choose|q: int| 0 <= q < ids.len() && ids[q] == xs[i];
                assert(xs.contains(xs[i]));
                assert(ids1[q] == xs[i]);
            }
            lemma_pigeon(xs, ids1);
        }
    }
}
/// k consecutive probes that all hit an in-flight id => k <= number of in-flight entries
pub proof fn lemma_probe_bound(o: Outbound, start: u16, k: nat)
    requires start != 0, k <= 17, wf(o), forall|j: nat| j < k ==> in_use(o, #[trigger] cyc(start, j)),
    ensures k <= 16
{
    reveal(wfs);
    let ids = ids_of(o);
    let xs = Seq::new(k, |j: int| cyc(start, j as nat));
    assert forall|i: int| 0 <= i < xs.len() implies ids.contains(#[trigger] xs[i]) by {
        let x = xs[i];
        assert(in_use(o, cyc(start, i as nat)));
        if has_ret(o.retained@, x) {
            let q = choose|q: int| 0 <= q < o.retained@.len() && (#[trigger] o.retained@[q]).packet_id == x;
            assert(ids[q] == x);
        } else {
            let q = choose|q: int| 0 <= q < o.pending_release@.len() && (#[trigger] o.pending_release@[q]).packet_id == x;
            assert(ids[o.retained@.len() + q] == x);
        }
    }
    assert forall|i: int, j: int| 0 <= i < xs.len() && 0 <= j < xs.len() && i != j implies xs[i] != xs[j] by {
        let a = (start - 1 + i) as int; let b = (start - 1 + j) as int;
        if i < j {
            assert(a % 65535 != b % 65535) by (nonlinear_arith) requires 0 <= a < b < a + 65535;
        } else {
            assert(a % 65535 != b % 65535) by (nonlinear_arith) requires 0 <= b < a < b + 65535;
        }
    }
    lemma_pigeon(xs, ids);
}

impl<'a> SessionData<'a> {
#[verifier::spinoff_prover]
fn new(outbound: &'a mut [u8]) -> (r: Self)
    ensures
        r.packet_id.v == 1 && r.generation == 0 && !r.session_present && r.pending_server_packet_ids@.len() == 0
            && r.outbound.retained@.len() == 0 && r.outbound.pending_control@.len() == 0 && r.outbound.pending_release@.len() == 0
            && r.outbound.used == 0 && bv(r.outbound) == old(outbound)@ && sd_inv(r),
{
        proof { lemma_w6_empty(); }


        Self {
            packet_id: NonZeroU16::new(1).unwrap(),
            generation: 0,
            outbound: Outbound::new(outbound),
            pending_server_packet_ids: Vec::new(),
            session_present: false,
        }
    }

#[verifier::spinoff_prover]
fn mark_session_present(&mut self)
    ensures
        final(self).session_present && final(self).packet_id == old(self).packet_id && final(self).generation == old(self).generation
            && final(self).pending_server_packet_ids@ == old(self).pending_server_packet_ids@
            && same_outbound(final(self).outbound, old(self).outbound),
{
        self.session_present = true;
    }

#[verifier::spinoff_prover]
fn reset(&mut self)
    requires
        sd_inv(*old(self)),
    ensures
        !final(self).session_present && final(self).generation == (if old(self).generation == u32::MAX { 0 } else { (old(self).generation + 1) as u32 })
            && final(self).packet_id.v == 1,
        final(self).pending_server_packet_ids@.len() == 0
            && final(self).outbound.retained@.len() == 0 && final(self).outbound.pending_control@.len() == 0
            && final(self).outbound.pending_release@.len() == 0 && final(self).outbound.used == 0
            && bv(final(self).outbound) == bv(old(self).outbound),
        sd_inv(*final(self)),
{
        self.session_present = false;
        self.generation = self.generation.wrapping_add(1);
        self.packet_id = NonZeroU16::new(1).unwrap();
        self.outbound.clear();
        self.pending_server_packet_ids.clear();
    
        proof {
            lemma_w6s_unfold(self.outbound.retained@, self.outbound.pending_release@);
            assert(ids_seq(self.outbound.retained@, self.outbound.pending_release@) =~= Seq::<u16>::empty());
        }

}

#[verifier::spinoff_prover]
fn generation(&self) -> (r: u32)
    ensures
        r == self.generation,
{
        self.generation
    }

#[verifier::spinoff_prover]
fn next_packet_id(&mut self) -> (r: u16)
    requires
        sd_inv(*old(self)),
    ensures
        r != 0,
        final(self).packet_id.v == next_id(r) && final(self).packet_id.v != 0,
        !has_ret(old(self).outbound.retained@, r) && !has_rel(old(self).outbound.pending_release@, r),
        same_outbound(final(self).outbound, old(self).outbound) && final(self).generation == old(self).generation
            && final(self).session_present == old(self).session_present
            && final(self).pending_server_packet_ids@ == old(self).pending_server_packet_ids@,
{
        let ghost start = self.packet_id.v;
        let ghost mut k: nat = 0;
        proof { lemma_cyc_zero(start); }



        loop 
            invariant
                self.packet_id.v != 0,
                self.packet_id.v == cyc(start, k),
                start != 0, start == old(self).packet_id.v,
                k <= 16,
                forall|j: nat| j < k ==> in_use(old(self).outbound, #[trigger] cyc(start, j)),
                same_outbound(self.outbound, old(self).outbound), self.generation == old(self).generation,
                self.session_present == old(self).session_present,
                self.pending_server_packet_ids@ == old(self).pending_server_packet_ids@,
                wf(old(self).outbound),
            decreases 17 - k
{
            let packet_id = self.packet_id.get();
            self.packet_id =
                NonZeroU16::new(packet_id.wrapping_add(1)).unwrap_or(NonZeroU16::new(1).unwrap());
            if !self.outbound.has_retained(packet_id)
                && !self.outbound.has_pending_release(packet_id)
            {
                return packet_id;
            }
        
            proof {
                lemma_cyc_step(start, k);
                assert(in_use(old(self).outbound, cyc(start, k)));
                lemma_probe_bound(old(self).outbound, start, k + 1);
                k = k + 1;
            }

}
    }
}

} // verus!

// ======================================================================================
// 30_inbound: src/mqtt_client/session/inbound.rs — SessionData::handle_packet
// ======================================================================================
verus! {

pub struct Infallible { pub never: () }

/// everything of SessionData except the outbound queues is unchanged
pub open spec fn sd_frame(a: SessionData, b: SessionData) -> bool {
    a.packet_id == b.packet_id && a.generation == b.generation && a.session_present == b.session_present
}
pub open spec fn sd_unchanged(a: SessionData, b: SessionData) -> bool {
    sd_frame(a, b) && same_outbound(a.outbound, b.outbound) && a.pending_server_packet_ids@ == b.pending_server_packet_ids@
}
pub open spec fn rt_frame(a: RuntimeState, b: RuntimeState) -> bool {
    a.session_resumed == b.session_resumed && a.keepalive_interval == b.keepalive_interval
        && a.max_send_quota == b.max_send_quota && a.maximum_packet_size == b.maximum_packet_size && a.max_qos == b.max_qos
        && a.next_ping == b.next_ping
}
pub open spec fn rt_unchanged(a: RuntimeState, b: RuntimeState) -> bool {
    rt_frame(a, b) && a.send_quota == b.send_quota && a.ping_timeout == b.ping_timeout
}
/// the send quota after one more slot has been returned by the broker
pub open spec fn quota_up(rt: RuntimeState) -> u16 {
    let q = if rt.send_quota == u16::MAX { u16::MAX } else { (rt.send_quota + 1) as u16 };
    if rt.max_send_quota < q { rt.max_send_quota } else { q }
}
/// o1 is o0 with the first retained entry carrying `id` removed (arena re-packed, bytes kept)
pub open spec fn acked(o1: Outbound, o0: Outbound, id: u16) -> bool {
    &&& rets(bv(o1), o1.retained@) =~= rets(bv(o0), o0.retained@).remove(first_ret(o0.retained@, id))
    &&& same_queues(o1, o0)
    &&& bv(o1).len() == bv(o0).len()
}
/// first failing SUBACK/UNSUBACK reason byte, if any
pub open spec fn first_failure(codes: Seq<u8>) -> Option<ReasonCode>
    decreases codes.len()
{
    if codes.len() == 0 { None } else if !rc_success(rc_from_u8(codes[0])) { Some(rc_from_u8(codes[0])) }
    else { first_failure(codes.subrange(1, codes.len() as int)) }
}
pub proof fn lemma_first_failure_prefix(codes: Seq<u8>, k: int)
    requires 0 <= k <= codes.len(), forall|j: int| 0 <= j < k ==> rc_success(rc_from_u8(#[trigger] codes[j])),
    ensures first_failure(codes) == first_failure(codes.subrange(k, codes.len() as int))
    decreases k
{
    if k > 0 {
        let t = codes.subrange(1, codes.len() as int);
        assert(rc_success(rc_from_u8(codes[0])));
        assert forall|j: int| 0 <= j < k - 1 implies rc_success(rc_from_u8(#[trigger] t[j])) by { assert(t[j] == codes[j + 1]); }
        lemma_first_failure_prefix(t, k - 1);
        assert(t.subrange(k - 1, t.len() as int) =~= codes.subrange(k, codes.len() as int));
    } else {
        assert(codes.subrange(0, codes.len() as int) =~= codes);
    }
}
/// swap_remove on a duplicate-free list removes exactly that value from the set of members
pub proof fn lemma_swap_remove_set(s: Seq<u16>, i: int)
    requires s.no_duplicates(), 0 <= i < s.len(),
    ensures ({
        let t = s.update(i, s.last()).drop_last();
        &&& t.no_duplicates() && t.len() == s.len() - 1
        &&& !t.contains(s[i])
        &&& forall|x: u16| x != s[i] ==> t.contains(x) == s.contains(x)
    })
{
    let t = s.update(i, s.last()).drop_last();
    let n = s.len() - 1;
    assert forall|a: int, b: int| 0 <= a < t.len() && 0 <= b < t.len() && a != b implies t[a] != t[b] by {
        let aa = if a == i { n } else { a };
        let bb = if b == i { n } else { b };
        assert(t[a] == s[aa] && t[b] == s[bb]);
    }
    if t.contains(s[i]) {
        let a = choose|a: int| 0 <= a < t.len() && t[a] == s[i];
        let aa = if a == i { n } else { a };
        assert(t[a] == s[aa]);
    }
    assert forall|x: u16| x != s[i] implies t.contains(x) == s.contains(x) by {
        if s.contains(x) {
            let a = choose|a: int| 0 <= a < s.len() && s[a] == x;
            if a == n { assert(t[i] == x); } else { assert(t[a] == x); }
        }
        if t.contains(x) {
            let a = choose|a: int| 0 <= a < t.len() && t[a] == x;
            let aa = if a == i { n } else { a };
            assert(s[aa] == x);
        }
    }
}

/// ids of the retained list only
pub open spec fn ret_ids(r: Seq<RetainedPacket>) -> Seq<u16> { Seq::new(r.len(), |i: int| r[i].packet_id) }
pub open spec fn rel_ids(r: Seq<PendingRelease>) -> Seq<u16> { Seq::new(r.len(), |i: int| r[i].packet_id) }

/// W6 survives an acknowledgement: removing one retained entry keeps all ids distinct and frees that id
pub proof fn lemma_w6_acked(o1: Outbound, o0: Outbound, id: u16)
    requires w6(o0), acked(o1, o0, id), has_ret(o0.retained@, id),
    ensures w6(o1), !in_use(o1, id)
{
    lemma_w6_unfold(o0); lemma_w6_unfold(o1);
    let k = first_ret(o0.retained@, id);
    lemma_first_ret_bounds(o0.retained@, id);
    let r0 = o0.retained@; let r1 = o1.retained@;
    let n0 = r0.len() as int;
    assert(rets(bv(o1), r1).len() == rets(bv(o0), r0).remove(k).len());
    assert(r1.len() == n0 - 1);
    assert forall|i: int| 0 <= i < r1.len() implies (#[trigger] r1[i]).packet_id == r0[if i < k { i } else { i + 1 }].packet_id by {
        assert(rets(bv(o1), r1)[i] == rets(bv(o0), r0).remove(k)[i]);
    }
    let a0 = ids_of(o0); let a1 = ids_of(o1);
    assert forall|i: int, j: int| 0 <= i < a1.len() && 0 <= j < a1.len() && i != j implies a1[i] != a1[j] by {
        let ii = if i < k { i } else { i + 1 };
        let jj = if j < k { j } else { j + 1 };
        assert(a1[i] == a0[ii] && a1[j] == a0[jj]);
    }
    if in_use(o1, id) {
        if has_ret(r1, id) {
            let i = choose|i: int| 0 <= i < r1.len() && (#[trigger] r1[i]).packet_id == id;
            let ii = if i < k { i } else { i + 1 };
            assert(a0[ii] == id && a0[k] == id && ii != k);
        } else {
            let i = choose|i: int| 0 <= i < o1.pending_release@.len() && (#[trigger] o1.pending_release@[i]).packet_id == id;
            assert(a0[n0 + i] == id && a0[k] == id);
        }
    }
}
pub proof fn lemma_first_ret_bounds(r: Seq<RetainedPacket>, id: u16)
    ensures 0 <= first_ret(r, id) <= r.len(),
        has_ret(r, id) ==> first_ret(r, id) < r.len() && r[first_ret(r, id)].packet_id == id,
    decreases r.len()
{
    if r.len() > 0 && r[0].packet_id != id {
        let t = r.subrange(1, r.len() as int);
        lemma_first_ret_bounds(t, id);
        if has_ret(r, id) {
            let i = choose|i: int| 0 <= i < r.len() && (#[trigger] r[i]).packet_id == id;
            assert(t[i - 1] == r[i]);
            assert(has_ret(t, id));
            assert(t[first_ret(t, id)] == r[first_ret(t, id) + 1]);
        }
    }
}
pub proof fn lemma_first_rel_bounds(r: Seq<PendingRelease>, id: u16)
    ensures 0 <= first_rel(r, id) <= r.len(),
        has_rel(r, id) ==> first_rel(r, id) < r.len() && r[first_rel(r, id)].packet_id == id,
    decreases r.len()
{
    if r.len() > 0 && r[0].packet_id != id {
        let t = r.subrange(1, r.len() as int);
        lemma_first_rel_bounds(t, id);
        if has_rel(r, id) {
            let i = choose|i: int| 0 <= i < r.len() && (#[trigger] r[i]).packet_id == id;
            assert(t[i - 1] == r[i]);
            assert(has_rel(t, id));
            assert(t[first_rel(t, id)] == r[first_rel(t, id) + 1]);
        }
    }
}
/// W6 survives queueing a PUBREL for an id that is not in use
pub proof fn lemma_w6s_push(r: Seq<RetainedPacket>, l: Seq<PendingRelease>, e: PendingRelease)
    requires w6s(r, l), !has_ret(r, e.packet_id), !has_rel(l, e.packet_id),
    ensures w6s(r, l.push(e))
{
    lemma_w6s_unfold(r, l); lemma_w6s_unfold(r, l.push(e));
    let a1 = ids_seq(r, l); let a2 = ids_seq(r, l.push(e));
    let n = a1.len() as int;
    assert(a2.len() == n + 1);
    assert forall|i: int, j: int| 0 <= i < a2.len() && 0 <= j < a2.len() && i != j implies a2[i] != a2[j] by {
        if i < n && j < n { assert(a2[i] == a1[i] && a2[j] == a1[j]); }
        else {
            let m = if i < n { i } else { j };
            assert(a2[n] == e.packet_id);
            assert(a2[m] == a1[m]);
            if m < r.len() { assert(r[m].packet_id == a1[m]); }
            else { assert(l[m - r.len()].packet_id == a1[m]); }
        }
    }
}
/// W6 survives removing a pending PUBREL
pub proof fn lemma_w6_remove_release(o1: Outbound, o0: Outbound, k: int)
    requires w6(o0), 0 <= k < o0.pending_release@.len(), o1.pending_release@ =~= o0.pending_release@.remove(k), o1.retained@ == o0.retained@,
    ensures w6(o1)
{
    lemma_w6_unfold(o0); lemma_w6_unfold(o1);
    let a0 = ids_of(o0); let a1 = ids_of(o1);
    let n = o0.retained@.len() as int;
    assert forall|i: int, j: int| 0 <= i < a1.len() && 0 <= j < a1.len() && i != j implies a1[i] != a1[j] by {
        let ii = if i < n + k { i } else { i + 1 };
        let jj = if j < n + k { j } else { j + 1 };
        assert(a1[i] == a0[ii] && a1[j] == a0[jj]);
    }
}
pub proof fn lemma_w6_same_lists(o1: Outbound, o0: Outbound)
    requires w6(o0), o1.retained@ == o0.retained@, o1.pending_release@ == o0.pending_release@,
    ensures w6(o1)
{
    lemma_w6_unfold(o0); lemma_w6_unfold(o1);
    assert(ids_of(o1) =~= ids_of(o0));
}

pub open spec fn ctl_pushed(o1: Outbound, o0: Outbound, a: ControlAction) -> bool {
    &&& o1.pending_control@ == o0.pending_control@.push(PendingControl { action: a, state: SendState::Write { written: 0 } })
    &&& o1.retained@ == o0.retained@ && o1.pending_release@ == o0.pending_release@ && o1.used == o0.used && bv(o1) == bv(o0)
}

impl<'a> SessionData<'a> {
#[verifier::spinoff_prover]
#[verifier::rlimit(200)]
fn handle_packet(
        &mut self,
        runtime: &mut RuntimeState,
        packet: ReceivedPacket<'_>,
    ) -> (r: Result<bool, Error<Infallible>>)
    requires
        sd_inv(*old(self)),
    ensures
        sd_inv(*final(self)) && sd_frame(*final(self), *old(self)) && rt_frame(*final(runtime), *old(runtime)),
        r == Ok::<bool, Error<Infallible>>(true) ==> packet is Publish,
        r matches Err(e) ==> (e is Disconnected || e is Peer || e is Resource),
        !(r matches Err(Error::Transport(_))),
        packet is ConnAck ==> r == Err::<bool, Error<Infallible>>(Error::Peer(PeerError::InvalidPacket))
            && sd_unchanged(*final(self), *old(self)) && rt_unchanged(*final(runtime), *old(runtime)),
        packet is Disconnect ==> r == Err::<bool, Error<Infallible>>(Error::Disconnected)
            && sd_unchanged(*final(self), *old(self)) && rt_unchanged(*final(runtime), *old(runtime)),
        packet is PingResp ==> r == Ok::<bool, Error<Infallible>>(false) && final(runtime).ping_timeout is None
            && final(runtime).send_quota == old(runtime).send_quota && sd_unchanged(*final(self), *old(self)),
        (packet is SubAck && !has_ret(old(self).outbound.retained@, packet->SubAck_0.packet_id)) ==>
            r == Ok::<bool, Error<Infallible>>(false) && sd_unchanged(*final(self), *old(self)) && rt_unchanged(*final(runtime), *old(runtime)),
        (packet is SubAck && has_ret(old(self).outbound.retained@, packet->SubAck_0.packet_id)) ==>
            acked(final(self).outbound, old(self).outbound, packet->SubAck_0.packet_id) && rt_unchanged(*final(runtime), *old(runtime))
            && final(self).pending_server_packet_ids@ == old(self).pending_server_packet_ids@
            && r == (match first_failure(packet->SubAck_0.codes@) { Some(c) => Err::<bool, Error<Infallible>>(Error::Peer(PeerError::Rejected(c))), None => Ok::<bool, Error<Infallible>>(false) }),
        (packet is UnsubAck && !has_ret(old(self).outbound.retained@, packet->UnsubAck_0.packet_id)) ==>
            r == Ok::<bool, Error<Infallible>>(false) && sd_unchanged(*final(self), *old(self)) && rt_unchanged(*final(runtime), *old(runtime)),
        (packet is UnsubAck && has_ret(old(self).outbound.retained@, packet->UnsubAck_0.packet_id)) ==>
            acked(final(self).outbound, old(self).outbound, packet->UnsubAck_0.packet_id) && rt_unchanged(*final(runtime), *old(runtime))
            && final(self).pending_server_packet_ids@ == old(self).pending_server_packet_ids@
            && r == (match first_failure(packet->UnsubAck_0.codes@) { Some(c) => Err::<bool, Error<Infallible>>(Error::Peer(PeerError::Rejected(c))), None => Ok::<bool, Error<Infallible>>(false) }),
        (packet is PubAck && !has_ret(old(self).outbound.retained@, packet->PubAck_0.packet_id)) ==>
            r == Ok::<bool, Error<Infallible>>(false) && sd_unchanged(*final(self), *old(self)) && rt_unchanged(*final(runtime), *old(runtime)),
        (packet is PubAck && has_ret(old(self).outbound.retained@, packet->PubAck_0.packet_id)) ==>
            acked(final(self).outbound, old(self).outbound, packet->PubAck_0.packet_id)
            && final(self).pending_server_packet_ids@ == old(self).pending_server_packet_ids@
            && final(runtime).ping_timeout == old(runtime).ping_timeout
            && r == (if rc_success(reason_of(packet->PubAck_0.reason)) { Ok::<bool, Error<Infallible>>(false) } else { Err::<bool, Error<Infallible>>(Error::Peer(PeerError::Rejected(reason_of(packet->PubAck_0.reason)))) }),
        (packet is PubAck && has_ret(old(self).outbound.retained@, packet->PubAck_0.packet_id)) ==>
            final(runtime).send_quota == quota_up(*old(runtime)),
        (packet is PubRec && !has_ret(old(self).outbound.retained@, packet->PubRec_0.packet_id)
            && !has_rel(old(self).outbound.pending_release@, packet->PubRec_0.packet_id)) ==>
            r == Ok::<bool, Error<Infallible>>(false) && sd_unchanged(*final(self), *old(self)) && rt_unchanged(*final(runtime), *old(runtime)),
        (packet is PubRec && !has_ret(old(self).outbound.retained@, packet->PubRec_0.packet_id)
            && has_rel(old(self).outbound.pending_release@, packet->PubRec_0.packet_id)) ==>
            sd_unchanged(*final(self), *old(self)) && rt_unchanged(*final(runtime), *old(runtime))
            && r == (if rc_success(reason_of(packet->PubRec_0.reason)) { Ok::<bool, Error<Infallible>>(false) } else { Err::<bool, Error<Infallible>>(Error::Peer(PeerError::Rejected(reason_of(packet->PubRec_0.reason)))) }),
        (packet is PubRec && has_ret(old(self).outbound.retained@, packet->PubRec_0.packet_id) && !rc_success(reason_of(packet->PubRec_0.reason))) ==>
            acked(final(self).outbound, old(self).outbound, packet->PubRec_0.packet_id)
            && r == Err::<bool, Error<Infallible>>(Error::Peer(PeerError::Rejected(reason_of(packet->PubRec_0.reason)))),
        (packet is PubRec && has_ret(old(self).outbound.retained@, packet->PubRec_0.packet_id) && !rc_success(reason_of(packet->PubRec_0.reason))) ==>
            final(runtime).send_quota == quota_up(*old(runtime)),
        (packet is PubRec && has_ret(old(self).outbound.retained@, packet->PubRec_0.packet_id) && rc_success(reason_of(packet->PubRec_0.reason))
            && !too_large(old(runtime).maximum_packet_size, REL_LEN as usize) && old(self).outbound.pending_release@.len() < MAX_PENDING_RELEASE) ==>
            r == Ok::<bool, Error<Infallible>>(false)
            && rets(bv(final(self).outbound), final(self).outbound.retained@) =~= rets(bv(old(self).outbound), old(self).outbound.retained@).remove(first_ret(old(self).outbound.retained@, packet->PubRec_0.packet_id))
            && final(self).outbound.pending_control@ == old(self).outbound.pending_control@
            && final(self).outbound.pending_release@ == old(self).outbound.pending_release@.push(PendingRelease { packet_id: packet->PubRec_0.packet_id, reason: ReasonCode::Success, state: SendState::Write { written: 0 } }),
        (packet is PubRec && has_ret(old(self).outbound.retained@, packet->PubRec_0.packet_id) && rc_success(reason_of(packet->PubRec_0.reason))) ==>
            final(runtime).send_quota == old(runtime).send_quota,
        (packet is PubComp && !has_rel(old(self).outbound.pending_release@, packet->PubComp_0.packet_id)) ==>
            r == Ok::<bool, Error<Infallible>>(false) && sd_unchanged(*final(self), *old(self)) && rt_unchanged(*final(runtime), *old(runtime)),
        (packet is PubComp && has_rel(old(self).outbound.pending_release@, packet->PubComp_0.packet_id)) ==>
            final(self).outbound.pending_release@ =~= old(self).outbound.pending_release@.remove(first_rel(old(self).outbound.pending_release@, packet->PubComp_0.packet_id))
            && final(self).outbound.retained@ == old(self).outbound.retained@ && final(self).outbound.pending_control@ == old(self).outbound.pending_control@
            && bv(final(self).outbound) == bv(old(self).outbound) && final(self).outbound.used == old(self).outbound.used
            && r == (if rc_success(reason_of(packet->PubComp_0.reason)) { Ok::<bool, Error<Infallible>>(false) } else { Err::<bool, Error<Infallible>>(Error::Peer(PeerError::Rejected(reason_of(packet->PubComp_0.reason)))) }),
        (packet is PubComp && has_rel(old(self).outbound.pending_release@, packet->PubComp_0.packet_id)) ==>
            final(runtime).send_quota == quota_up(*old(runtime)),
        packet is PubRel ==> {
            let rel = packet->PubRel_0;
            let known = old(self).pending_server_packet_ids@.contains(rel.packet_id);
            let action = ControlAction::PubComp { packet_id: rel.packet_id, reason: if known { ReasonCode::Success } else { ReasonCode::PacketIdNotFound } };
            &&& rt_unchanged(*final(runtime), *old(runtime))
            &&& !final(self).pending_server_packet_ids@.contains(rel.packet_id)
            &&& forall|x: u16| x != rel.packet_id ==> final(self).pending_server_packet_ids@.contains(x) == old(self).pending_server_packet_ids@.contains(x)
            &&& !known ==> final(self).pending_server_packet_ids@ == old(self).pending_server_packet_ids@
            &&& (!too_large(old(runtime).maximum_packet_size, 5) && old(self).outbound.pending_control@.len() < MAX_PENDING_CONTROL) ==>
                    r == Ok::<bool, Error<Infallible>>(false) && ctl_pushed(final(self).outbound, old(self).outbound, action)
            &&& too_large(old(runtime).maximum_packet_size, 5) ==> r == Err::<bool, Error<Infallible>>(Error::Resource(ResourceError::PacketTooLarge))
                    && same_outbound(final(self).outbound, old(self).outbound)
        },
        (packet is Publish && packet->Publish_0.qos == QoS::AtMostOnce) ==>
            r == Ok::<bool, Error<Infallible>>(true) && sd_unchanged(*final(self), *old(self)) && rt_unchanged(*final(runtime), *old(runtime)),
        (packet is Publish && packet->Publish_0.qos == QoS::AtLeastOnce && packet->Publish_0.packet_id is Some) ==> {
            let id = packet->Publish_0.packet_id->Some_0;
            let action = ControlAction::PubAck { packet_id: id, reason: if old(self).pending_server_packet_ids@.contains(id) { ReasonCode::PacketIdInUse } else { ReasonCode::Success } };
            &&& rt_unchanged(*final(runtime), *old(runtime))
            &&& final(self).pending_server_packet_ids@ == old(self).pending_server_packet_ids@
            &&& (!too_large(old(runtime).maximum_packet_size, 5) && old(self).outbound.pending_control@.len() < MAX_PENDING_CONTROL) ==>
                    r == Ok::<bool, Error<Infallible>>(true) && ctl_pushed(final(self).outbound, old(self).outbound, action)
            &&& too_large(old(runtime).maximum_packet_size, 5) ==> r == Err::<bool, Error<Infallible>>(Error::Resource(ResourceError::PacketTooLarge))
                    && same_outbound(final(self).outbound, old(self).outbound)
        },
        (packet is Publish && packet->Publish_0.qos == QoS::ExactlyOnce && packet->Publish_0.packet_id is Some) ==> {
            let id = packet->Publish_0.packet_id->Some_0;
            let dup = old(self).pending_server_packet_ids@.contains(id);
            let full = old(self).pending_server_packet_ids@.len() >= MAX_INBOUND_QOS2;
            let action = ControlAction::PubRec { packet_id: id, reason: if !dup && full { ReasonCode::ReceiveMaxExceeded } else { ReasonCode::Success } };
            &&& rt_unchanged(*final(runtime), *old(runtime))
            &&& final(self).pending_server_packet_ids@ == (if !dup && !full { old(self).pending_server_packet_ids@.push(id) } else { old(self).pending_server_packet_ids@ })
            &&& (!too_large(old(runtime).maximum_packet_size, 5) && old(self).outbound.pending_control@.len() < MAX_PENDING_CONTROL) ==>
                    r == Ok::<bool, Error<Infallible>>(!dup && !full) && ctl_pushed(final(self).outbound, old(self).outbound, action)
            &&& too_large(old(runtime).maximum_packet_size, 5) ==> r == Err::<bool, Error<Infallible>>(Error::Resource(ResourceError::PacketTooLarge))
                    && same_outbound(final(self).outbound, old(self).outbound)
        },
        (packet is Publish && packet->Publish_0.qos != QoS::AtMostOnce && packet->Publish_0.packet_id is None) ==>
            r == Err::<bool, Error<Infallible>>(Error::Peer(PeerError::InvalidPacket)) && sd_unchanged(*final(self), *old(self)) && rt_unchanged(*final(runtime), *old(runtime)),
{
        match packet {
            ReceivedPacket::ConnAck(_) => return Err(ProtocolError::UnexpectedPacket.into()),
            ReceivedPacket::SubAck(ack) => {
                if !self.outbound.ack_packet(ack.packet_id) {

                    return Ok(false);
                }
                proof { lemma_w6_acked(self.outbound, old(self).outbound, ack.packet_id); }

                let __s1 = ack.codes; let mut __i1: usize = 0;
        while __i1 < __s1.len() 
                    invariant
                        __i1 <= __s1@.len(), __s1@ == ack.codes@,
                        packet is SubAck, packet->SubAck_0.packet_id == ack.packet_id, packet->SubAck_0.codes@ == ack.codes@,
                        has_ret(old(self).outbound.retained@, ack.packet_id),
                        forall|j: int| 0 <= j < __i1 ==> rc_success(rc_from_u8(#[trigger] __s1@[j])),
                        sd_inv(*self), sd_frame(*self, *old(self)), rt_unchanged(*runtime, *old(runtime)),
                        self.pending_server_packet_ids@ == old(self).pending_server_packet_ids@,
                        acked(self.outbound, old(self).outbound, ack.packet_id),
                    decreases __s1@.len() - __i1
{
            let code = __s1[__i1];
                    proof {
                        lemma_first_failure_prefix(ack.codes@, __i1 as int);
                        let t = ack.codes@.subrange(__i1 as int, ack.codes@.len() as int);
                        assert(t[0] == code);
                        if rc_success(rc_from_u8(code)) {} else { assert(first_failure(t) == Some(rc_from_u8(code))); }
                    }

                    (match ReasonCode::from(code).as_result() { Ok(__v) => __v, Err(__e) => return Err(From::from(__e)) });
                    __i1 += 1;
        }
            }
            ReceivedPacket::UnsubAck(ack) => {
                if !self.outbound.ack_packet(ack.packet_id) {

                    return Ok(false);
                }
                proof { lemma_w6_acked(self.outbound, old(self).outbound, ack.packet_id); }

                let __s2 = ack.codes; let mut __i2: usize = 0;
        while __i2 < __s2.len() 
                    invariant
                        __i2 <= __s2@.len(), __s2@ == ack.codes@,
                        packet is UnsubAck, packet->UnsubAck_0.packet_id == ack.packet_id, packet->UnsubAck_0.codes@ == ack.codes@,
                        has_ret(old(self).outbound.retained@, ack.packet_id),
                        forall|j: int| 0 <= j < __i2 ==> rc_success(rc_from_u8(#[trigger] __s2@[j])),
                        sd_inv(*self), sd_frame(*self, *old(self)), rt_unchanged(*runtime, *old(runtime)),
                        self.pending_server_packet_ids@ == old(self).pending_server_packet_ids@,
                        acked(self.outbound, old(self).outbound, ack.packet_id),
                    decreases __s2@.len() - __i2
{
            let code = __s2[__i2];
                    proof {
                        lemma_first_failure_prefix(ack.codes@, __i2 as int);
                        let t = ack.codes@.subrange(__i2 as int, ack.codes@.len() as int);
                        assert(t[0] == code);
                        if rc_success(rc_from_u8(code)) {} else { assert(first_failure(t) == Some(rc_from_u8(code))); }
                    }

                    (match ReasonCode::from(code).as_result() { Ok(__v) => __v, Err(__e) => return Err(From::from(__e)) });
                    __i2 += 1;
        }
            }
            ReceivedPacket::PingResp => {

                runtime.ping_timeout = None;
            }
            ReceivedPacket::PubAck(ack) => {
                if !self.outbound.ack_packet(ack.packet_id) {

                    return Ok(false);
                }
                proof { lemma_w6_acked(self.outbound, old(self).outbound, ack.packet_id); }

                runtime.send_quota = runtime
                    .send_quota
                    .saturating_add(1)
                    .min(runtime.max_send_quota);

                (match ack.reason.code().as_result() { Ok(__v) => __v, Err(__e) => return Err(From::from(__e)) });
            }
            ReceivedPacket::PubRec(rec) => {
                let queue_release = match self.outbound.ack_packet(rec.packet_id) {
                    true => {
                        proof { lemma_w6_acked(self.outbound, old(self).outbound, rec.packet_id); }


                        if rec.reason.code().failed() {
                            runtime.send_quota = runtime
                                .send_quota
                                .saturating_add(1)
                                .min(runtime.max_send_quota);
                        }

                        true
                    }
                    false if self.outbound.has_pending_release(rec.packet_id) => {

                        false
                    }
                    false => {

                        return Ok(false);
                    }
                };
                (match rec.reason.code().as_result() { Ok(__v) => __v, Err(__e) => return Err(From::from(__e)) });
                if queue_release {
                    (match check_pubrel_size(
                        runtime.maximum_packet_size,
                        rec.packet_id,
                        ReasonCode::Success,
                    ) { Ok(__v) => __v, Err(__e) => return Err(From::from(__e)) });
                    (match self.outbound
                        .queue_release(rec.packet_id, ReasonCode::Success) { Ok(__v) => __v, Err(__e) => return Err(From::from(__e)) });
                    proof {
                        lemma_w6s_push(self.outbound.retained@, old(self).outbound.pending_release@,
                            PendingRelease { packet_id: rec.packet_id, reason: ReasonCode::Success, state: SendState::Write { written: 0 } });
                    }


                }
            }
            ReceivedPacket::PubComp(comp) => {
                if !self.outbound.ack_release(comp.packet_id) {

                    return Ok(false);
                }
                proof {
                    lemma_first_rel_bounds(old(self).outbound.pending_release@, comp.packet_id);
                    lemma_w6_remove_release(self.outbound, old(self).outbound, first_rel(old(self).outbound.pending_release@, comp.packet_id));
                }

                runtime.send_quota = runtime
                    .send_quota
                    .saturating_add(1)
                    .min(runtime.max_send_quota);

                (match comp.reason.code().as_result() { Ok(__v) => __v, Err(__e) => return Err(From::from(__e)) });
            }
            ReceivedPacket::PubRel(rel) => {
                let reason = if let Some(index) = self
                    .pending_server_packet_ids.position_of(|id| -> (__r: bool) ensures __r == (*id == rel.packet_id) { *id == rel.packet_id })
                {
                    self.pending_server_packet_ids.swap_remove(index);
                    proof { lemma_swap_remove_set(old(self).pending_server_packet_ids@, index as int); }

                    ReasonCode::Success
                } else {
                    ReasonCode::PacketIdNotFound
                };

                let action = ControlAction::PubComp {
                    packet_id: rel.packet_id,
                    reason,
                };
                (match check_control_packet_size(runtime.maximum_packet_size, action) { Ok(__v) => __v, Err(__e) => return Err(From::from(__e)) });
                (match self.outbound.queue_control(action) { Ok(__v) => __v, Err(__e) => return Err(From::from(__e)) });
            }
            ReceivedPacket::Publish(info) => {

                match info.qos {
                    QoS::AtMostOnce => {}
                    QoS::AtLeastOnce => {
                        let packet_id = (match info.packet_id.ok_or(ProtocolError::MalformedPacket) { Ok(__v) => __v, Err(__e) => return Err(From::from(__e)) });
                        let reason = if self.pending_server_packet_ids.contains(&packet_id) {
                            ReasonCode::PacketIdInUse
                        } else {
                            ReasonCode::Success
                        };

                        let action = ControlAction::PubAck { packet_id, reason };
                        (match check_control_packet_size(runtime.maximum_packet_size, action) { Ok(__v) => __v, Err(__e) => return Err(From::from(__e)) });
                        (match self.outbound.queue_control(action) { Ok(__v) => __v, Err(__e) => return Err(From::from(__e)) });
                    }
                    QoS::ExactlyOnce => {
                        let packet_id = (match info.packet_id.ok_or(ProtocolError::MalformedPacket) { Ok(__v) => __v, Err(__e) => return Err(From::from(__e)) });
                        let duplicate = self.pending_server_packet_ids.contains(&packet_id);
                        let reason = if !duplicate {
                            (match self.pending_server_packet_ids
                                .push(packet_id) { Ok(_) => ReasonCode::Success, Err(_) => ReasonCode::ReceiveMaxExceeded })
                        } else {
                            ReasonCode::Success
                        };

                        let action = ControlAction::PubRec { packet_id, reason };
                        (match check_control_packet_size(runtime.maximum_packet_size, action) { Ok(__v) => __v, Err(__e) => return Err(From::from(__e)) });
                        (match self.outbound.queue_control(action) { Ok(__v) => __v, Err(__e) => return Err(From::from(__e)) });
                        if duplicate || !reason.success() {

                            return Ok(false);
                        }
                    }
                }
                return Ok(true);
            }
            ReceivedPacket::Disconnect(disconnect) => {

                return Err(Error::Disconnected);
            }
        }
        proof {
            if packet is SubAck { let c = packet->SubAck_0.codes@; lemma_first_failure_prefix(c, c.len() as int); }
            if packet is UnsubAck { let c = packet->UnsubAck_0.codes@; lemma_first_failure_prefix(c, c.len() as int); }
        }

        Ok(false)
    }
}

} // verus!

// ======================================================================================
// 40_reader: src/de/packet_reader.rs — PacketReader (inbound framing)
// ======================================================================================
verus! {

pub struct PacketReader<'a> {
    pub buffer: &'a mut [u8],
    pub read_bytes: usize,
    pub packet_length: Option<usize>,
}

pub open spec fn rbuf(r: PacketReader) -> Seq<u8> { r.buffer@ }

/// the decoder as a function of the packet bytes (leaf: Kani, bounded — see kani/de.rs)
pub uninterp spec fn parse_packet(b: Seq<u8>) -> Result<ReceivedPacket<'static>, ProtocolError>;

impl<'a> ReceivedPacket<'a> {
    #[verifier::external_body]
    pub fn from_buffer(buf: &'a [u8]) -> (r: Result<Self, ProtocolError>)
        ensures r == parse_packet(buf@),
            r matches Err(e) ==> (e is MalformedPacket || e is Deserialization),
    { unimplemented!() }
}

/// value of the (at most four) remaining-length bytes b[1..1+k], little-endian base 128
pub open spec fn varint_val(b: Seq<u8>, k: int) -> int
    decreases k
{
    if k <= 0 { 0 } else { varint_val(b, k - 1) + ((b[k] & 0x7F) as int) * pow128(k - 1) }
}
pub open spec fn pow128(k: int) -> int { if k <= 0 { 1 } else if k == 1 { 128 } else if k == 2 { 16384 } else if k == 3 { 2097152 } else { 268435456 } }
/// number of length bytes if b[1..n] contains a terminating length byte within 4 bytes, else 0
pub open spec fn len_bytes(b: Seq<u8>, n: int) -> int {
    if n >= 2 && b[1] & 0x80 == 0 { 1 }
    else if n >= 3 && b[2] & 0x80 == 0 { 2 }
    else if n >= 4 && b[3] & 0x80 == 0 { 3 }
    else if n >= 5 && b[4] & 0x80 == 0 { 4 }
    else { 0 }
}
/// total packet length announced by the fixed header held in b[..n] (None: not yet known)
pub open spec fn announced(b: Seq<u8>, n: int) -> Option<int> {
    let k = len_bytes(b, n);
    if k == 0 { None } else { Some(1 + k + varint_val(b, k)) }
}

pub open spec fn reader_inv(r: PacketReader) -> bool {
    &&& r.read_bytes <= rbuf(r).len()
    &&& rbuf(r).len() <= usize::MAX
    &&& match r.packet_length {
            Some(t) => r.read_bytes <= t,
            // while the length is unknown only the last committed byte may be a terminating length byte
            None => r.read_bytes <= 5 && hdr_cont(rbuf(r), r.read_bytes - 1),
        }
}
/// bytes 1..n-1 all carry the continuation bit
pub open spec fn hdr_cont(b: Seq<u8>, n: int) -> bool {
    forall|j: int| 1 <= j < n ==> #[trigger] b[j] & 0x80 != 0
}
/// after a successful probe that left the length unknown, no committed byte terminates it
pub open spec fn probed(r: PacketReader) -> bool {
    r.packet_length is None ==> hdr_cont(rbuf(r), r.read_bytes as int)
}
/// size of the window `receive_buffer` hands out next
pub open spec fn window(r: PacketReader) -> int {
    match r.packet_length { Some(t) => t - r.read_bytes, None => 1 }
}

pub open spec fn rcap(r: PacketReader) -> usize { r.buffer.len() }
pub proof fn lemma_rbuf_bound(r: PacketReader) ensures rbuf(r).len() <= usize::MAX { assert(rbuf(r).len() == rcap(r)); }
/// one term of the remaining-length sum, exactly as the code computes it
pub open spec fn vterm(v: u8, index: usize) -> usize { ((v & 0x7F) as usize) << (index * 7) }

pub proof fn lemma_announced_none(b: Seq<u8>, n: int)
    requires 0 <= n <= 5, announced(b, n) is None
    ensures hdr_cont(b, n)
{
    assert forall|j: int| 1 <= j < n implies #[trigger] b[j] & 0x80 != 0 by {
        if j == 1 {} else if j == 2 {} else if j == 3 {} else {}
    }
}
pub proof fn lemma_vterm(v: u8, i: usize)
    requires i <= 3
    ensures vterm(v, i) == ((v & 0x7F) as int) * pow128(i as int), vterm(v, i) <= 127 * pow128(i as int)
{
    let x = (v & 0x7F) as usize;
    assert(x <= 127) by (bit_vector) requires x == (v & 0x7F) as usize;
    if i == 0 { assert(x << 0usize == x) by (bit_vector); }
    else if i == 1 { assert(x << 7usize == x * 128) by (bit_vector) requires x <= 127; }
    else if i == 2 { assert(x << 14usize == x * 16384) by (bit_vector) requires x <= 127; }
    else { assert(x << 21usize == x * 2097152) by (bit_vector) requires x <= 127; }
}

impl<'a> PacketReader<'a> {
#[verifier::spinoff_prover]
fn new(buffer: &'a mut [u8]) -> (r: PacketReader<'a>)
    ensures
        r.read_bytes == 0 && r.packet_length is None && rbuf(r) == old(buffer)@ && reader_inv(r),
{
        proof { assert(buffer@.len() == buffer.len()); }


        PacketReader {
            buffer,
            read_bytes: 0,
            packet_length: None,
        }
    }

#[verifier::spinoff_prover]
fn capacity(&self) -> (r: usize)
    ensures
        r == rbuf(*self).len(),
{
        self.buffer.len()
    }

#[verifier::spinoff_prover]
fn commit(&mut self, count: usize)
    requires
        reader_inv(*old(self)),
        old(self).read_bytes + count <= rbuf(*old(self)).len()
            && (old(self).packet_length matches Some(t) ==> old(self).read_bytes + count <= t)
            && (old(self).packet_length is None ==> count <= 1 && old(self).read_bytes <= 4 && probed(*old(self))),
    ensures
        final(self).read_bytes == old(self).read_bytes + count && final(self).packet_length == old(self).packet_length
            && rbuf(*final(self)) == rbuf(*old(self)),
        reader_inv(*final(self)),
{
        self.read_bytes += count;

    }

#[verifier::spinoff_prover]
fn packet_available(&self) -> (r: bool)
    ensures
        r == (self.packet_length matches Some(t) && self.read_bytes >= t),
{
        match self.packet_length {
            Some(length) => self.read_bytes >= length,
            None => false,
        }
    }

#[verifier::spinoff_prover]
fn reset(&mut self)
    ensures
        final(self).read_bytes == 0 && final(self).packet_length is None && rbuf(*final(self)) == rbuf(*old(self)),
        reader_inv(*final(self)),
{
        proof { lemma_rbuf_bound(*self); }



        self.read_bytes = 0;
        self.packet_length = None;
    }

#[verifier::spinoff_prover]
fn probe_fixed_header(&mut self) -> (r: Result<(), ProtocolError>)
    requires
        reader_inv(*old(self)) && old(self).packet_length is None,
    ensures
        final(self).read_bytes == old(self).read_bytes && rbuf(*final(self)) == rbuf(*old(self)),
        old(self).read_bytes <= 1 ==> r is Ok && final(self).packet_length is None,
        old(self).read_bytes > 1 ==> (match announced(rbuf(*old(self)), old(self).read_bytes as int) {
            Some(t) => final(self).packet_length == Some(t as usize) && r is Ok,
            None => final(self).packet_length is None && (r is Err <==> old(self).read_bytes >= 5),
        }),
        r matches Err(e) ==> e is MalformedPacket,
        reader_inv(*final(self)),
        r is Ok ==> probed(*final(self)),
{
        if self.read_bytes <= 1 {
            return Ok(());
        }

        self.packet_length = None;

        let mut packet_length = 0;
        let __s1 = &self.buffer[1..self.read_bytes]; let mut index: usize = 0;
        while index < 4 && index < __s1.len() 
            invariant_except_break
                self.packet_length is None,
                forall|j: int| 1 <= j <= index ==> #[trigger] rbuf(*old(self))[j] & 0x80 != 0,
                packet_length == varint_val(rbuf(*old(self)), index as int),
                packet_length < pow128(index as int),
            invariant
                index <= 4, index <= __s1@.len(),
                __s1@ == rbuf(*old(self)).subrange(1, old(self).read_bytes as int),
                self.read_bytes == old(self).read_bytes, rbuf(*self) == rbuf(*old(self)),
                2 <= self.read_bytes <= 5, self.read_bytes <= rbuf(*self).len(), rbuf(*self).len() <= usize::MAX,
                hdr_cont(rbuf(*old(self)), old(self).read_bytes - 1),
            ensures
                (match announced(rbuf(*old(self)), old(self).read_bytes as int) {
                    Some(t) => self.packet_length == Some(t as usize) && self.read_bytes <= t <= usize::MAX,
                    None => self.packet_length is None,
                }),
            decreases 4 - index
{
            let value = __s1[index];
            proof {
                lemma_vterm(value, index);
                assert(__s1@[index as int] == rbuf(*old(self))[index as int + 1]);
            }

            packet_length += ((value & 0x7F) as usize) << (index * 7);
            if (value & 0x80) == 0 {
                let length_size_bytes = 1 + index;

                let header_size_bytes = 1 + length_size_bytes;
                self.packet_length = Some(header_size_bytes + packet_length);

                break;
            }
            index += 1;
        }

        if self.read_bytes >= 5 && self.packet_length.is_none() {

            return Err(ProtocolError::MalformedPacket);
        }
        proof { if self.packet_length is None { lemma_announced_none(rbuf(*self), self.read_bytes as int); } }

        Ok(())
    }

#[verifier::spinoff_prover]
fn receive_buffer(&mut self) -> (r: Result<&mut [u8], ProtocolError>)
    requires
        reader_inv(*old(self)),
    ensures
        final(self).read_bytes == old(self).read_bytes && rbuf(*final(self)).len() == rbuf(*old(self)).len()
            && (old(self).packet_length is Some ==> final(self).packet_length == old(self).packet_length)
            && (old(self).packet_length is None && old(self).read_bytes > 1 && r is Ok ==>
                    final(self).packet_length == (match announced(rbuf(*old(self)), old(self).read_bytes as int) { Some(t) => Some(t as usize), None => None::<usize> }))
            && (old(self).packet_length is None && old(self).read_bytes <= 1 ==> final(self).packet_length is None),
        r matches Ok(w) ==> w@.len() == window(*final(self)) && old(self).read_bytes + w@.len() <= rbuf(*old(self)).len(),
        r matches Ok(w) ==> final(w)@.len() == w@.len() && w@ == rbuf(*old(self)).subrange(old(self).read_bytes as int, old(self).read_bytes + w@.len())
            && rbuf(*final(self)) =~= rbuf(*old(self)).subrange(0, old(self).read_bytes as int) + final(w)@
            + rbuf(*old(self)).subrange(old(self).read_bytes + w@.len(), rbuf(*old(self)).len() as int),
        (r is Ok && final(self).packet_length is None) ==> old(self).read_bytes <= 4,
        r is Err ==> rbuf(*final(self)) == rbuf(*old(self)),
        reader_inv(*final(self)) && (r is Ok ==> probed(*final(self))),
        r matches Err(e) ==> e is MalformedPacket,
        (final(self).packet_length matches Some(t) && t > rbuf(*old(self)).len()) ==> r is Err,
{
        if self.packet_length.is_none() {
            (match self.probe_fixed_header() { Ok(__v) => __v, Err(__e) => return Err(From::from(__e)) });
        }

        let end = if let Some(packet_length) = &self.packet_length {
            *packet_length
        } else {
            self.read_bytes + 1
        };

        if end <= self.buffer.len() {

            Ok(&mut self.buffer[self.read_bytes..end])
        } else {

            Err(ProtocolError::MalformedPacket)
        }
    }

#[verifier::spinoff_prover]
fn take_packet(&mut self) -> (r: Result<(usize, ReceivedPacket<'_>), ProtocolError>)
    requires
        old(self).packet_length matches Some(t) ==> t <= rbuf(*old(self)).len(),
    ensures
        rbuf(*final(self)) == rbuf(*old(self)) && (old(self).packet_length is Some ==>
            final(self).read_bytes == 0 && final(self).packet_length is None && reader_inv(*final(self)))
            && (old(self).packet_length is None ==> final(self).read_bytes == old(self).read_bytes && final(self).packet_length is None),
        r matches Err(e) ==> (e is MalformedPacket || e is Deserialization),
        r == (match old(self).packet_length {
            None => Err::<(usize, ReceivedPacket<'_>), ProtocolError>(ProtocolError::MalformedPacket),
            Some(t) => match parse_packet(rbuf(*old(self)).subrange(0, t as int)) {
                Ok(p) => Ok::<(usize, ReceivedPacket<'_>), ProtocolError>((t, p)),
                Err(e) => Err::<(usize, ReceivedPacket<'_>), ProtocolError>(e),
            },
        }),
{
        let packet_length = *(match self.packet_length.as_ref().ok_or(ProtocolError::MalformedPacket) { Ok(__v) => __v, Err(__e) => return Err(From::from(__e)) });

        self.reset();

        Ok((
            packet_length,
            (match ReceivedPacket::from_buffer(&self.buffer[..packet_length]) { Ok(__v) => __v, Err(__e) => return Err(From::from(__e)) }),
        ))
    }

#[verifier::spinoff_prover]
fn received_packet(&mut self) -> (r: Result<ReceivedPacket<'_>, ProtocolError>)
    requires
        old(self).packet_length matches Some(t) ==> t <= rbuf(*old(self)).len(),
    ensures
        rbuf(*final(self)) == rbuf(*old(self)) && (old(self).packet_length is Some ==>
            final(self).read_bytes == 0 && final(self).packet_length is None && reader_inv(*final(self)))
            && (old(self).packet_length is None ==> final(self).read_bytes == old(self).read_bytes && final(self).packet_length is None),
        r matches Err(e) ==> (e is MalformedPacket || e is Deserialization),
        r == (match old(self).packet_length {
            None => Err::<ReceivedPacket<'_>, ProtocolError>(ProtocolError::MalformedPacket),
            Some(t) => parse_packet(rbuf(*old(self)).subrange(0, t as int)),
        }),
{
        (match self.take_packet() { Ok((_, packet)) => Ok(packet), Err(__e) => Err(__e) })
    }
}

} // verus!

// ======================================================================================
// 50_session: Session / Connection types and the synchronous queries of session/mod.rs
// ======================================================================================
verus! {

// ---- heapless::String<N> ---------------------------------------------------------------
#[verifier::external_body]
pub struct String<const N: usize> { s: std::string::String }
impl<const N: usize> String<N> {
    pub uninterp spec fn text(&self) -> Seq<char>;
    #[verifier::external_body] pub fn as_str(&self) -> (r: &str) ensures r@ == self.text() { unimplemented!() }
}
impl<const N: usize> Clone for String<N> {
    #[verifier::external_body] fn clone(&self) -> (r: Self) ensures r.text() == self.text() { unimplemented!() }
}
pub uninterp spec fn str_fits(s: Seq<char>, n: usize) -> bool;
impl<'a, const N: usize> TryFrom<&'a str> for String<N> {
    type Error = ();
    #[verifier::external_body]
    fn try_from(s: &'a str) -> (r: Result<Self, ()>) { unimplemented!() }
}
impl<'a, const N: usize> vstd::std_specs::convert::TryFromSpecImpl<&'a str> for String<N> {
    open spec fn obeys_try_from_spec() -> bool { false }
    open spec fn try_from_spec(s: &'a str) -> Result<Self, ()> { arbitrary() }
}

pub const TOPIC_CAPACITY: usize = 128;
pub type TopicString = String<TOPIC_CAPACITY>;
pub struct Will<'a> {
    pub topic: TopicString,
    pub data: &'a [u8],
    pub qos: QoS,
    pub retained: Retain,
    pub properties: &'a [Property<'a>],
}
#[derive(Copy, Clone)]
pub struct Auth<'a> {
    pub user_name: &'a str,
    pub password: &'a [u8],
}
impl<'a> Clone for Will<'a> {
    #[verifier::external_body]
    fn clone(&self) -> (r: Self)
        ensures r.topic.text() == self.topic.text() && r.data == self.data && r.qos == self.qos && r.retained == self.retained && r.properties == self.properties
    { unimplemented!() }
}

#[derive(Copy, Clone, PartialEq, Eq, Structural)]
pub enum OpKind {
    PublishAtLeastOnce,
    PublishExactlyOnce,
    Subscribe,
    Unsubscribe,
}
#[derive(Copy, Clone, PartialEq, Eq, Structural)]
pub struct Op {
    pub kind: OpKind,
    pub packet_id: u16,
    pub generation: u32,
}
#[derive(Copy, Clone, PartialEq, Eq, Structural)]
pub enum OpStatus {
    Pending,
    Complete,
    Invalidated,
}
#[derive(Copy, Clone, PartialEq, Eq, Structural)]
pub enum ConnectEvent {
    Connected,
    Reconnected,
}
pub struct Session<'buf> {
    pub client_id: String<64>,
    pub packet_reader: PacketReader<'buf>,
    pub data: SessionData<'buf>,
    pub runtime: RuntimeState,
    pub will: Option<Will<'buf>>,
    pub auth: Option<Auth<'buf>>,
    pub session_expiry_interval: u32,
    pub downgrade_qos: bool,
}
pub struct Connection<'a, 'buf> {
    pub session: &'a mut Session<'buf>,
    pub io: VIo,
    pub event: ConnectEvent,
    pub live: bool,
}

impl Op {
#[verifier::spinoff_prover]
fn new(kind: OpKind, packet_id: u16, generation: u32) -> (r: Self)
    ensures
        r == (Op { kind, packet_id, generation }),
{
        Self {
            kind,
            packet_id,
            generation,
        }
    }
}

/// representation invariant of a Session between operations
pub open spec fn sess_inv(s: Session) -> bool {
    sd_inv(s.data) && reader_inv(s.packet_reader) && rt_ok(s.runtime)
}
/// the keep-alive interval comes from a u16 number of seconds (ConfigBuilder / Server Keep Alive)
pub open spec fn rt_ok(rt: RuntimeState) -> bool { rt.keepalive_interval.ticks() <= 65535 * 1_000_000 }


/// C18: what a handle reports, as a function of the session state
pub open spec fn status_spec(s: Session, op: Op) -> OpStatus {
    if op.generation != s.data.generation { OpStatus::Invalidated }
    else if (match op.kind {
        OpKind::PublishExactlyOnce => has_ret(s.data.outbound.retained@, op.packet_id) || has_rel(s.data.outbound.pending_release@, op.packet_id),
        _ => has_ret(s.data.outbound.retained@, op.packet_id),
    }) { OpStatus::Pending } else { OpStatus::Complete }
}

impl<'buf> Session<'buf> {
#[verifier::spinoff_prover]
fn max_rx_packet_size(&self) -> (r: usize)
    ensures
        r == rbuf(self.packet_reader).len(),
{
        self.packet_reader.capacity()
    }
#[verifier::spinoff_prover]
fn max_tx_packet_size(&self) -> (r: usize)
    ensures
        r == bv(self.data.outbound).len(),
{
        self.data.outbound.capacity()
    }
#[verifier::spinoff_prover]
fn can_publish(&self, qos: QoS) -> (r: bool)
    requires
        sess_inv(*self),
    ensures
        qos == QoS::AtMostOnce ==> r == (bv(self.data.outbound).len() - total_len(self.data.outbound) >= MAX_FIXED_HEADER_SIZE),
        qos != QoS::AtMostOnce ==> r == (self.runtime.send_quota != 0 && self.data.outbound.retained@.len() < MAX_RETAINED
            && bv(self.data.outbound).len() - total_len(self.data.outbound) >= MAX_FIXED_HEADER_SIZE),
{
        if qos == QoS::AtMostOnce {
            self.data.outbound.scratch_len() >= MAX_FIXED_HEADER_SIZE
        } else {
            self.runtime.send_quota != 0 && self.data.outbound.can_retain()
        }
    }
#[verifier::spinoff_prover]
fn is_publish_quiescent(&self) -> (r: bool)
    ensures
        r == (self.data.outbound.pending_control@.len() == 0 && self.data.outbound.retained@.len() == 0 && self.data.outbound.pending_release@.len() == 0),
{
        self.data.outbound.is_quiescent()
    }
#[verifier::spinoff_prover]
fn status(&self, op: &Op) -> (r: OpStatus)
    ensures
        r == status_spec(*self, *op),
{
        if op.generation != self.data.generation() {
            return OpStatus::Invalidated;
        }

        let pending = match op.kind {
            OpKind::PublishAtLeastOnce | OpKind::Subscribe | OpKind::Unsubscribe => {
                self.data.outbound.has_retained(op.packet_id)
            }
            OpKind::PublishExactlyOnce => {
                self.data.outbound.has_retained(op.packet_id)
                    || self.data.outbound.has_pending_release(op.packet_id)
            }
        };

        if pending {
            OpStatus::Pending
        } else {
            OpStatus::Complete
        }
    }
#[verifier::spinoff_prover]
fn is_pending(&self, op: &Op) -> (r: bool)
    ensures
        r == (status_spec(*self, *op) == OpStatus::Pending),
{
        self.status(op) == OpStatus::Pending
    }
#[verifier::spinoff_prover]
fn is_complete(&self, op: &Op) -> (r: bool)
    ensures
        r == (status_spec(*self, *op) == OpStatus::Complete),
{
        self.status(op) == OpStatus::Complete
    }
#[verifier::spinoff_prover]
fn is_invalidated(&self, op: &Op) -> (r: bool)
    ensures
        r == (status_spec(*self, *op) == OpStatus::Invalidated),
{
        self.status(op) == OpStatus::Invalidated
    }
}

} // verus!

// ======================================================================================
// 60_drive: src/mqtt_client/session/drive.rs (+ handle_disconnect from handshake.rs / mod.rs)
// ======================================================================================
verus! {

pub struct InboundPublish<'a> {
    pub topic: &'a str,
    pub payload: &'a [u8],
    pub properties: Properties<'a>,
    pub retain: Retain,
    pub qos: QoS,
}
impl<'a> InboundPublish<'a> {
#[verifier::spinoff_prover]
fn new(
        topic: &'a str,
        payload: &'a [u8],
        properties: Properties<'a>,
        retain: Retain,
        qos: QoS,
    ) -> (r: Self)
    ensures
        r.topic == topic && r.payload == payload && r.properties == properties && r.retain == retain && r.qos == qos,
{
        Self {
            topic,
            payload,
            properties,
            retain,
            qos,
        }
    }
}

#[derive(Copy, Clone)]
pub enum FlushedPacket {
    Control(ControlAction),
    Release(u16),
    Retained(u16),
}
pub struct WriteStep<'a> {
    pub packet: FlushedPacket,
    pub bytes: &'a [u8],
    pub written: usize,
    pub len: usize,
}
pub enum PreparedStep<'a> {
    Write(WriteStep<'a>),
    Flush(FlushedPacket),
    Done,
}
#[derive(Copy, Clone)]
pub enum Progress {
    Idle,
    Advanced,
    Inbound(usize),
}

/// configuration fields of a Session that no network operation may change
pub open spec fn cfg_same(a: Session, b: Session) -> bool {
    a.downgrade_qos == b.downgrade_qos && a.session_expiry_interval == b.session_expiry_interval
        && a.client_id.text() == b.client_id.text() && a.will == b.will && a.auth == b.auth
}
/// the session behind a connection handle
pub open spec fn cs<'a, 'buf>(c: Connection<'a, 'buf>) -> Session<'buf> { *c.session }
pub open spec fn conn_inv(c: Connection) -> bool { sess_inv(cs(c)) }

/// o1 is o0 after `arm_replay`: every entry fresh again, DUP marked, nothing added or removed
pub open spec fn armed(o1: Outbound, o0: Outbound) -> bool {
    &&& o1.pending_control@.len() == o0.pending_control@.len()
    &&& forall|i: int| 0 <= i < o0.pending_control@.len() ==> (#[trigger] o1.pending_control@[i]) == fresh_ctl(o0.pending_control@[i])
    &&& o1.pending_release@.len() == o0.pending_release@.len()
    &&& forall|i: int| 0 <= i < o0.pending_release@.len() ==> (#[trigger] o1.pending_release@[i]) == fresh_rel(o0.pending_release@[i])
    &&& o1.retained@.len() == o0.retained@.len()
    &&& forall|i: int| 0 <= i < o0.retained@.len() ==> (#[trigger] o1.retained@[i]) == fresh_ret(o0.retained@[i])
    &&& o1.used == o0.used && bv(o1).len() == bv(o0).len()
    &&& forall|k: int| 0 <= k < bv(o0).len() && !is_first_byte(o0.retained@, k) ==> #[trigger] bv(o1)[k] == bv(o0)[k]
    &&& forall|k: int| 0 <= k < bv(o0).len() && is_first_byte(o0.retained@, k) ==> #[trigger] bv(o1)[k] == bv(o0)[k] | 8u8
}
pub proof fn lemma_armed_w6(o1: Outbound, o0: Outbound)
    requires armed(o1, o0), w6(o0)
    ensures w6(o1)
{
    lemma_w6_unfold(o0); lemma_w6_unfold(o1);
    assert(ids_of(o1) =~= ids_of(o0)) by {
        assert forall|i: int| 0 <= i < ids_of(o0).len() implies ids_of(o1)[i] == ids_of(o0)[i] by {
            if i < o0.retained@.len() { assert(o1.retained@[i] == fresh_ret(o0.retained@[i])); }
            else { let j = i - o0.retained@.len(); assert(o1.pending_release@[j] == fresh_rel(o0.pending_release@[j])); }
        }
    }
}

/// the bytes `perform_outbound_step` sends for a step
pub open spec fn step_bytes(o: Outbound, s: OutboundStep) -> Seq<u8> {
    match s {
        OutboundStep::Control(c) => ctl_bytes(c.action),
        OutboundStep::Release(r) => rel_bytes(r.packet_id, r.reason),
        OutboundStep::Retained(r) => bv(o).subrange(r.offset as int, r.offset + r.len),
    }
}
pub open spec fn step_state(s: OutboundStep) -> SendState {
    match s { OutboundStep::Control(c) => c.state, OutboundStep::Release(r) => r.state, OutboundStep::Retained(r) => r.state }
}
/// wire' = wire ++ pkt[from .. from+d] for some 0 <= d with from+d <= |pkt| (d = |wire'| - |wire|)
pub open spec fn wire_ext(ow: Seq<u8>, nw: Seq<u8>, pkt: Seq<u8>, from: int) -> bool {
    let d = nw.len() - ow.len();
    &&& d >= 0
    &&& from + d <= pkt.len()
    &&& nw =~= ow + pkt.subrange(from, from + d)
}

pub open spec fn flushed_tracked(o: Outbound, p: FlushedPacket) -> bool {
    match p {
        FlushedPacket::Control(a) => has_ctl(o.pending_control@, a),
        FlushedPacket::Release(id) => has_rel(o.pending_release@, id),
        FlushedPacket::Retained(id) => has_ret(o.retained@, id),
    }
}

/// o1 is o0 with the send state of the (first) entry named by `p` set to sw(written, len)
pub open spec fn written_upd(o1: Outbound, o0: Outbound, p: FlushedPacket, written: usize, len: usize) -> bool {
    &&& o1.used == o0.used && bv(o1) == bv(o0)
    &&& match p {
        FlushedPacket::Control(a) => o1.retained@ == o0.retained@ && o1.pending_release@ == o0.pending_release@
            && o1.pending_control@ == o0.pending_control@.update(first_ctl(o0.pending_control@, a), PendingControl { action: a, state: sw(written, len) }),
        FlushedPacket::Release(id) => o1.retained@ == o0.retained@ && o1.pending_control@ == o0.pending_control@
            && o1.pending_release@ == o0.pending_release@.update(first_rel(o0.pending_release@, id),
                PendingRelease { state: sw(written, len), ..o0.pending_release@[first_rel(o0.pending_release@, id)] }),
        FlushedPacket::Retained(id) => o1.pending_control@ == o0.pending_control@ && o1.pending_release@ == o0.pending_release@
            && o1.retained@ == o0.retained@.update(first_ret(o0.retained@, id),
                RetainedPacket { state: sw(written, len), ..o0.retained@[first_ret(o0.retained@, id)] }),
    }
}
/// changing only send states keeps all identifiers
pub proof fn lemma_written_w6(o1: Outbound, o0: Outbound, p: FlushedPacket, written: usize, len: usize)
    requires written_upd(o1, o0, p, written, len), w6(o0), flushed_tracked(o0, p)
    ensures w6(o1)
{
    lemma_w6_unfold(o0); lemma_w6_unfold(o1);
    lemma_first_ret_bounds(o0.retained@, match p { FlushedPacket::Retained(id) => id, _ => 0 });
    lemma_first_rel_bounds(o0.pending_release@, match p { FlushedPacket::Release(id) => id, _ => 0 });
    assert(ids_of(o1) =~= ids_of(o0));
}

/// nothing of the session's own queues is half-way on the wire
pub open spec fn no_in_progress(o: Outbound) -> bool { step_for(o, true) is None }

/// retained and release lists carry the same packets (ids, lengths, reasons, order) — only send
/// states, arena offsets and the DUP bit may differ.  Stated as equality of derived sequences so that
/// it is transitive for free.
pub open spec fn same_inflight(o1: Outbound, o0: Outbound) -> bool {
    ret_sig(o1.retained@) == ret_sig(o0.retained@) && rel_sig(o1.pending_release@) == rel_sig(o0.pending_release@)
}
pub proof fn lemma_inflight_refl(o: Outbound) ensures same_inflight(o, o) {}
pub proof fn lemma_inflight_trans(o2: Outbound, o1: Outbound, o0: Outbound)
    requires same_inflight(o2, o1), same_inflight(o1, o0) ensures same_inflight(o2, o0)
{}
pub proof fn lemma_inflight_written(o1: Outbound, o0: Outbound, p: FlushedPacket, written: usize, len: usize)
    requires written_upd(o1, o0, p, written, len), flushed_tracked(o0, p) ensures same_inflight(o1, o0)
{
    lemma_first_ret_bounds(o0.retained@, match p { FlushedPacket::Retained(id) => id, _ => 0 });
    lemma_first_rel_bounds(o0.pending_release@, match p { FlushedPacket::Release(id) => id, _ => 0 });
    assert(ret_sig(o1.retained@) =~= ret_sig(o0.retained@));
    assert(rel_sig(o1.pending_release@) =~= rel_sig(o0.pending_release@));
}
pub proof fn lemma_inflight_flushed(o1: Outbound, o0: Outbound, p: FlushedPacket)
    requires flushed_upd(o1, o0, p), flushed_tracked(o0, p) ensures same_inflight(o1, o0)
{
    lemma_first_ret_bounds(o0.retained@, match p { FlushedPacket::Retained(id) => id, _ => 0 });
    lemma_first_rel_bounds(o0.pending_release@, match p { FlushedPacket::Release(id) => id, _ => 0 });
    assert(ret_sig(o1.retained@) =~= ret_sig(o0.retained@));
    assert(rel_sig(o1.pending_release@) =~= rel_sig(o0.pending_release@));
}
pub proof fn lemma_inflight_armed(o1: Outbound, o0: Outbound)
    requires armed(o1, o0) ensures same_inflight(o1, o0)
{
    assert forall|i: int| 0 <= i < o0.retained@.len() implies ret_sig(o1.retained@)[i] == ret_sig(o0.retained@)[i] by {
        assert(o1.retained@[i] == fresh_ret(o0.retained@[i]));
    }
    assert forall|i: int| 0 <= i < o0.pending_release@.len() implies rel_sig(o1.pending_release@)[i] == rel_sig(o0.pending_release@)[i] by {
        assert(o1.pending_release@[i] == fresh_rel(o0.pending_release@[i]));
    }
    assert(ret_sig(o1.retained@) =~= ret_sig(o0.retained@));
    assert(rel_sig(o1.pending_release@) =~= rel_sig(o0.pending_release@));
}
pub open spec fn reader_same(a: PacketReader, b: PacketReader) -> bool {
    a.read_bytes == b.read_bytes && a.packet_length == b.packet_length && rbuf(a) == rbuf(b)
}
/// runtime fields that keep-alive bookkeeping never touches
pub open spec fn rt_frame_ka(a: RuntimeState, b: RuntimeState) -> bool {
    a.session_resumed == b.session_resumed && a.keepalive_interval == b.keepalive_interval && a.send_quota == b.send_quota
        && a.max_send_quota == b.max_send_quota && a.maximum_packet_size == b.maximum_packet_size && a.max_qos == b.max_qos
}
/// o1 is o0 after the flush of `p` completed: a control entry is dropped, a PUBREL / retained packet becomes Sent
pub open spec fn flushed_upd(o1: Outbound, o0: Outbound, p: FlushedPacket) -> bool {
    &&& o1.used == o0.used && bv(o1) == bv(o0)
    &&& match p {
        FlushedPacket::Control(a) => o1.retained@ == o0.retained@ && o1.pending_release@ == o0.pending_release@
            && o1.pending_control@ =~= o0.pending_control@.remove(first_ctl(o0.pending_control@, a)),
        FlushedPacket::Release(id) => o1.retained@ == o0.retained@ && o1.pending_control@ == o0.pending_control@
            && o1.pending_release@ == o0.pending_release@.update(first_rel(o0.pending_release@, id),
                PendingRelease { state: SendState::Sent, ..o0.pending_release@[first_rel(o0.pending_release@, id)] }),
        FlushedPacket::Retained(id) => o1.pending_control@ == o0.pending_control@ && o1.pending_release@ == o0.pending_release@
            && o1.retained@ == o0.retained@.update(first_ret(o0.retained@, id),
                RetainedPacket { state: SendState::Sent, ..o0.retained@[first_ret(o0.retained@, id)] }),
    }
}
pub proof fn lemma_flushed_w6(o1: Outbound, o0: Outbound, p: FlushedPacket)
    requires flushed_upd(o1, o0, p), w6(o0), flushed_tracked(o0, p)
    ensures w6(o1)
{
    lemma_w6_unfold(o0); lemma_w6_unfold(o1);
    lemma_first_ret_bounds(o0.retained@, match p { FlushedPacket::Retained(id) => id, _ => 0 });
    lemma_first_rel_bounds(o0.pending_release@, match p { FlushedPacket::Release(id) => id, _ => 0 });
    assert(ids_of(o1) =~= ids_of(o0));
}

pub open spec fn step_packet(s: OutboundStep) -> FlushedPacket {
    match s {
        OutboundStep::Control(c) => FlushedPacket::Control(c.action),
        OutboundStep::Release(r) => FlushedPacket::Release(r.packet_id),
        OutboundStep::Retained(r) => FlushedPacket::Retained(r.packet_id),
    }
}
pub proof fn lemma_idx_bounds(o: Outbound, ip: bool)
    ensures 0 <= ctl_idx(o.pending_control@, ip) <= o.pending_control@.len(),
        0 <= rel_idx(o.pending_release@, ip) <= o.pending_release@.len(),
        0 <= ret_idx(o.retained@, ip) <= o.retained@.len(),
        ctl_idx(o.pending_control@, ip) < o.pending_control@.len() ==> prio(o.pending_control@[ctl_idx(o.pending_control@, ip)].state, ip),
        rel_idx(o.pending_release@, ip) < o.pending_release@.len() ==> prio(o.pending_release@[rel_idx(o.pending_release@, ip)].state, ip),
        ret_idx(o.retained@, ip) < o.retained@.len() ==> prio(o.retained@[ret_idx(o.retained@, ip)].state, ip),
{
    lemma_ctl_idx_b(o.pending_control@, ip); lemma_rel_idx_b(o.pending_release@, ip); lemma_ret_idx_b(o.retained@, ip);
}
pub proof fn lemma_ctl_idx_b(c: Seq<PendingControl>, ip: bool)
    ensures 0 <= ctl_idx(c, ip) <= c.len(), ctl_idx(c, ip) < c.len() ==> prio(c[ctl_idx(c, ip)].state, ip)
    decreases c.len()
{ if c.len() > 0 && !prio(c[0].state, ip) { let t = c.subrange(1, c.len() as int); lemma_ctl_idx_b(t, ip); if ctl_idx(t, ip) < t.len() { assert(t[ctl_idx(t, ip)] == c[ctl_idx(t, ip) + 1]); } } }
pub proof fn lemma_rel_idx_b(c: Seq<PendingRelease>, ip: bool)
    ensures 0 <= rel_idx(c, ip) <= c.len(), rel_idx(c, ip) < c.len() ==> prio(c[rel_idx(c, ip)].state, ip)
    decreases c.len()
{ if c.len() > 0 && !prio(c[0].state, ip) { let t = c.subrange(1, c.len() as int); lemma_rel_idx_b(t, ip); if rel_idx(t, ip) < t.len() { assert(t[rel_idx(t, ip)] == c[rel_idx(t, ip) + 1]); } } }
pub proof fn lemma_ret_idx_b(c: Seq<RetainedPacket>, ip: bool)
    ensures 0 <= ret_idx(c, ip) <= c.len(), ret_idx(c, ip) < c.len() ==> prio(c[ret_idx(c, ip)].state, ip)
    decreases c.len()
{ if c.len() > 0 && !prio(c[0].state, ip) { let t = c.subrange(1, c.len() as int); lemma_ret_idx_b(t, ip); if ret_idx(t, ip) < t.len() { assert(t[ret_idx(t, ip)] == c[ret_idx(t, ip) + 1]); } } }

/// what `next_step` hands out names a tracked entry; under W6 it is the first entry with that key,
/// it is never `Sent`, and a retained step carries that entry's offset and length
pub proof fn lemma_step_tracked(o: Outbound, s: OutboundStep)
    requires next_step_spec(o) == Some(s), wf(o), w6(o)
    ensures flushed_tracked(o, step_packet(s)), !(step_state(s) is Sent),
        s matches OutboundStep::Retained(r) ==> {
            let k = first_ret(o.retained@, r.packet_id);
            0 <= k < o.retained@.len() && o.retained@[k].offset == r.offset && o.retained@[k].len == r.len && o.retained@[k].state == r.state
                && r.offset + r.len <= bv(o).len() && r.len >= 1 && state_ok(r.state, r.len as int)
        },
        s matches OutboundStep::Release(r) ==> {
            let k = first_rel(o.pending_release@, r.packet_id);
            0 <= k < o.pending_release@.len() && o.pending_release@[k].reason == r.reason && o.pending_release@[k].state == r.state && state_ok(r.state, REL_LEN)
        },
        s matches OutboundStep::Control(c) ==> state_ok(c.state, ctl_len(c.action)),
        bv(o).len() <= usize::MAX,
{
    reveal(wfs); lemma_w6_unfold(o);
    lemma_idx_bounds(o, true); lemma_idx_bounds(o, false);
    let ip = step_for(o, true) is Some;
    match s {
        OutboundStep::Control(c) => {
            let k = ctl_idx(o.pending_control@, ip);
            assert(o.pending_control@[k].action == c.action);
        },
        OutboundStep::Release(r) => {
            let k = rel_idx(o.pending_release@, ip);
            assert(o.pending_release@[k].packet_id == r.packet_id);
            lemma_first_rel_bounds(o.pending_release@, r.packet_id);
            let f = first_rel(o.pending_release@, r.packet_id);
            let n = o.retained@.len() as int;
            assert(ids_of(o)[n + f] == r.packet_id && ids_of(o)[n + k] == r.packet_id);
        },
        OutboundStep::Retained(r) => {
            let k = ret_idx(o.retained@, ip);
            assert(o.retained@[k].packet_id == r.packet_id);
            lemma_first_ret_bounds(o.retained@, r.packet_id);
            let f = first_ret(o.retained@, r.packet_id);
            assert(ids_of(o)[f] == r.packet_id && ids_of(o)[k] == r.packet_id);
            assert(o.retained@[k].offset + o.retained@[k].len <= o.used);
        },
    }
}

/// recording write progress keeps the entry tracked, and a later flush of the same entry is the
/// same as flushing the original entry
pub proof fn lemma_written_then_flushed(o2: Outbound, o1: Outbound, o0: Outbound, p: FlushedPacket, written: usize, len: usize)
    requires written_upd(o1, o0, p, written, len), flushed_tracked(o0, p),
    ensures flushed_tracked(o1, p), flushed_upd(o2, o1, p) ==> flushed_upd(o2, o0, p)
{
    match p {
        FlushedPacket::Control(a) => {
            lemma_first_ctl_bounds(o0.pending_control@, a);
            let k = first_ctl(o0.pending_control@, a);
            assert(o1.pending_control@[k].action == a);
                assert forall|j: int| 0 <= j < k implies (#[trigger] o1.pending_control@[j]).action != a by {
                    assert(o1.pending_control@[j] == o0.pending_control@[j]);
                    lemma_first_ctl_min(o0.pending_control@, a, j);
                }
            lemma_first_ctl(o1.pending_control@, a, k);
            if flushed_upd(o2, o1, p) {
                assert(o1.pending_control@.remove(k) =~= o0.pending_control@.remove(k));
            }
        },
        FlushedPacket::Release(id) => {
            lemma_first_rel_bounds(o0.pending_release@, id);
            let k = first_rel(o0.pending_release@, id);
            assert(o1.pending_release@[k].packet_id == id);
                assert forall|j: int| 0 <= j < k implies (#[trigger] o1.pending_release@[j]).packet_id != id by {
                    assert(o1.pending_release@[j] == o0.pending_release@[j]);
                    lemma_first_rel_min(o0.pending_release@, id, j);
                }
            lemma_first_rel(o1.pending_release@, id, k);
            if flushed_upd(o2, o1, p) {
                assert(o2.pending_release@ =~= o0.pending_release@.update(k, PendingRelease { state: SendState::Sent, ..o0.pending_release@[k] }));
            }
        },
        FlushedPacket::Retained(id) => {
            lemma_first_ret_bounds(o0.retained@, id);
            let k = first_ret(o0.retained@, id);
            assert(o1.retained@[k].packet_id == id);
                assert forall|j: int| 0 <= j < k implies (#[trigger] o1.retained@[j]).packet_id != id by {
                    assert(o1.retained@[j] == o0.retained@[j]);
                    lemma_first_ret_min(o0.retained@, id, j);
                }
            lemma_first_ret(o1.retained@, id, k);
            if flushed_upd(o2, o1, p) {
                assert(o2.retained@ =~= o0.retained@.update(k, RetainedPacket { state: SendState::Sent, ..o0.retained@[k] }));
            }
        },
    }
}
pub proof fn lemma_first_ctl_bounds(c: Seq<PendingControl>, a: ControlAction)
    ensures 0 <= first_ctl(c, a) <= c.len(), has_ctl(c, a) ==> first_ctl(c, a) < c.len() && c[first_ctl(c, a)].action == a,
    decreases c.len()
{
    if c.len() > 0 && c[0].action != a {
        let t = c.subrange(1, c.len() as int);
        lemma_first_ctl_bounds(t, a);
        if has_ctl(c, a) {
            let i = choose|i: int| 0 <= i < c.len() && (#[trigger] c[i]).action == a;
            assert(t[i - 1] == c[i]);
            assert(has_ctl(t, a));
            assert(t[first_ctl(t, a)] == c[first_ctl(t, a) + 1]);
        }
    }
}
pub proof fn lemma_first_ctl_min(c: Seq<PendingControl>, a: ControlAction, j: int)
    requires 0 <= j < first_ctl(c, a), j < c.len()
    ensures c[j].action != a
    decreases c.len()
{
    if c.len() > 0 && c[0].action != a && j > 0 {
        let t = c.subrange(1, c.len() as int);
        lemma_first_ctl_min(t, a, j - 1);
        assert(t[j - 1] == c[j]);
    }
}
pub proof fn lemma_first_rel_min(c: Seq<PendingRelease>, id: u16, j: int)
    requires 0 <= j < first_rel(c, id), j < c.len()
    ensures c[j].packet_id != id
    decreases c.len()
{
    if c.len() > 0 && c[0].packet_id != id && j > 0 {
        let t = c.subrange(1, c.len() as int);
        lemma_first_rel_min(t, id, j - 1);
        assert(t[j - 1] == c[j]);
    }
}
pub proof fn lemma_first_ret_min(c: Seq<RetainedPacket>, id: u16, j: int)
    requires 0 <= j < first_ret(c, id), j < c.len()
    ensures c[j].packet_id != id
    decreases c.len()
{
    if c.len() > 0 && c[0].packet_id != id && j > 0 {
        let t = c.subrange(1, c.len() as int);
        lemma_first_ret_min(t, id, j - 1);
        assert(t[j - 1] == c[j]);
    }
}

pub open spec fn pingreq_pending(o: Outbound) -> bool {
    exists|i: int| 0 <= i < o.pending_control@.len() && (#[trigger] o.pending_control@[i]).action == ControlAction::PingReq && o.pending_control@[i].state != SendState::Sent
}
/// C10: a PINGREQ is queued exactly when none is outstanding or pending and the send deadline has passed
pub open spec fn ping_due(s: Session, now: Instant) -> bool {
    s.runtime.ping_timeout is None
        && (s.runtime.next_ping matches Some(d) && now.ticks() >= d.ticks())
        && !pingreq_pending(s.data.outbound)
}
/// C10: the wait for PINGRESP is over
pub open spec fn ping_expired(s: Session, now: Instant) -> bool {
    s.runtime.ping_timeout matches Some(d) && now.ticks() >= d.ticks()
}

impl<'buf> Session<'buf> {
#[verifier::spinoff_prover]
fn handle_disconnect(&mut self)
    requires
        sd_inv(old(self).data),
    ensures
        armed(final(self).data.outbound, old(self).data.outbound),
        final(self).runtime.next_ping is None && final(self).runtime.ping_timeout is None && !final(self).runtime.session_resumed
            && final(self).packet_reader.read_bytes == 0 && final(self).packet_reader.packet_length is None
            && rbuf(final(self).packet_reader) == rbuf(old(self).packet_reader),
        final(self).runtime.send_quota == old(self).runtime.send_quota && final(self).runtime.max_send_quota == old(self).runtime.max_send_quota
            && final(self).runtime.maximum_packet_size == old(self).runtime.maximum_packet_size && final(self).runtime.max_qos == old(self).runtime.max_qos
            && final(self).runtime.keepalive_interval == old(self).runtime.keepalive_interval
            && sd_frame(final(self).data, old(self).data)
            && final(self).data.pending_server_packet_ids@ == old(self).data.pending_server_packet_ids@
            && cfg_same(*final(self), *old(self)),
        same_inflight(final(self).data.outbound, old(self).data.outbound),
        rt_ok(old(self).runtime) ==> sess_inv(*final(self)),
{

        self.data.outbound.arm_replay();
        self.runtime.reset_transport();
        self.packet_reader.reset();
    
        proof { lemma_armed_w6(self.data.outbound, old(self).data.outbound); lemma_inflight_armed(self.data.outbound, old(self).data.outbound); }

}
}

impl<'a, 'buf> Connection<'a, 'buf> {
#[verifier::spinoff_prover]
fn handle_disconnect(&mut self)
    requires
        sd_inv(cs(*old(self)).data),
    ensures
        !final(self).live,
        final(self).io == old(self).io && final(self).event == old(self).event && cfg_same(cs(*final(self)), cs(*old(self))),
        armed(cs(*final(self)).data.outbound, cs(*old(self)).data.outbound),
        cs(*final(self)).runtime.next_ping is None && cs(*final(self)).runtime.ping_timeout is None
            && cs(*final(self)).packet_reader.read_bytes == 0 && cs(*final(self)).packet_reader.packet_length is None
            && rbuf(cs(*final(self)).packet_reader) == rbuf(cs(*old(self)).packet_reader),
        cs(*final(self)).runtime.send_quota == cs(*old(self)).runtime.send_quota && cs(*final(self)).runtime.max_send_quota == cs(*old(self)).runtime.max_send_quota
            && cs(*final(self)).runtime.maximum_packet_size == cs(*old(self)).runtime.maximum_packet_size
            && cs(*final(self)).runtime.max_qos == cs(*old(self)).runtime.max_qos
            && cs(*final(self)).runtime.keepalive_interval == cs(*old(self)).runtime.keepalive_interval
            && sd_frame(cs(*final(self)).data, cs(*old(self)).data)
            && cs(*final(self)).data.pending_server_packet_ids@ == cs(*old(self)).data.pending_server_packet_ids@,
        same_inflight(cs(*final(self)).data.outbound, cs(*old(self)).data.outbound),
        rt_ok(cs(*old(self)).runtime) ==> conn_inv(*final(self)),
{
        self.live = false;
        self.session.handle_disconnect();
    
        proof { lemma_inflight_armed(cs(*self).data.outbound, cs(*old(self)).data.outbound); }

}

#[verifier::spinoff_prover]
fn set_written(&mut self, packet: FlushedPacket, written: usize, len: usize)
    requires
        conn_inv(*old(self)),
        flushed_tracked(cs(*old(self)).data.outbound, packet),
        match packet {
            FlushedPacket::Control(a) => len == ctl_len(a),
            FlushedPacket::Release(id) => len == REL_LEN,
            FlushedPacket::Retained(id) => len == cs(*old(self)).data.outbound.retained@[first_ret(cs(*old(self)).data.outbound.retained@, id)].len,
        },
    ensures
        final(self).io == old(self).io && final(self).live == old(self).live && final(self).event == old(self).event && cfg_same(cs(*final(self)), cs(*old(self)))
            && cs(*final(self)).runtime == cs(*old(self)).runtime
            && cs(*final(self)).packet_reader.read_bytes == cs(*old(self)).packet_reader.read_bytes
            && cs(*final(self)).packet_reader.packet_length == cs(*old(self)).packet_reader.packet_length
            && rbuf(cs(*final(self)).packet_reader) == rbuf(cs(*old(self)).packet_reader)
            && sd_frame(cs(*final(self)).data, cs(*old(self)).data)
            && cs(*final(self)).data.pending_server_packet_ids@ == cs(*old(self)).data.pending_server_packet_ids@,
        written_upd(cs(*final(self)).data.outbound, cs(*old(self)).data.outbound, packet, written, len),
        conn_inv(*final(self)),
{
        let out = &mut self.session.data.outbound;
        let found = match packet {
            FlushedPacket::Control(action) => out.set_control_written(action, written, len),
            FlushedPacket::Release(packet_id) => out.set_release_written(packet_id, written, len),
            FlushedPacket::Retained(packet_id) => out.set_retained_written(packet_id, written, len),
        };
        assert(found);
    
        proof { lemma_written_w6(self.session.data.outbound, old(self).session.data.outbound, packet, written, len); }

}

#[verifier::spinoff_prover]
fn complete_flush(&mut self, packet: FlushedPacket, now: Instant)
    requires
        conn_inv(*old(self)),
        flushed_tracked(cs(*old(self)).data.outbound, packet),
    ensures
        final(self).io == old(self).io && final(self).live == old(self).live && final(self).event == old(self).event && cfg_same(cs(*final(self)), cs(*old(self)))
            && reader_same(cs(*final(self)).packet_reader, cs(*old(self)).packet_reader)
            && sd_frame(cs(*final(self)).data, cs(*old(self)).data)
            && cs(*final(self)).data.pending_server_packet_ids@ == cs(*old(self)).data.pending_server_packet_ids@,
        cs(*final(self)).runtime.ping_timeout == (if packet matches FlushedPacket::Control(ControlAction::PingReq)
            { Some(instant_plus(now, Duration { t: Ghost((ROUND_TRIP_TIMEOUT_MS * 1000) as nat) })) } else { cs(*old(self)).runtime.ping_timeout }),
        cs(*final(self)).runtime.next_ping == (if cs(*old(self)).runtime.keepalive_interval.ticks() / 1000 == 0 { None::<Instant> }
            else { Some(Instant { t: Ghost((now.ticks() + send_interval_ms(cs(*old(self)).runtime.keepalive_interval.ticks() / 1000) * 1000) as nat) }) }),
        rt_frame_ka(cs(*final(self)).runtime, cs(*old(self)).runtime),
        flushed_upd(cs(*final(self)).data.outbound, cs(*old(self)).data.outbound, packet),
        conn_inv(*final(self)),
{
        let runtime = &mut self.session.runtime;
        let data = &mut self.session.data;
        if matches!(packet, FlushedPacket::Control(ControlAction::PingReq)) {
            runtime.ping_timeout = Some(now + Duration::from_millis(ROUND_TRIP_TIMEOUT_MS));
        }
        runtime.note_outbound_activity(now);
        let found = match packet {
            FlushedPacket::Control(action) => data.outbound.flush_control(action),
            FlushedPacket::Release(packet_id) => data.outbound.flush_release(packet_id),
            FlushedPacket::Retained(packet_id) => data.outbound.flush_retained(packet_id),
        };
        assert(found);
    
        proof { lemma_flushed_w6(self.session.data.outbound, old(self).session.data.outbound, packet); }

}

#[verifier::spinoff_prover]
async fn flush_current(
        &mut self,
        packet: FlushedPacket,
        now: Instant,
    ) -> (r: Result<(), Error<IoErr>>)
    requires
        conn_inv(*old(self)),
        flushed_tracked(cs(*old(self)).data.outbound, packet),
    ensures
        !old(self).live ==> r == Err::<(), Error<IoErr>>(Error::Disconnected) && final(self).io == old(self).io && *final(self).session == *old(self).session,
        final(self).live ==> old(self).live,
        final(self).io.wire@ == old(self).io.wire@ && final(self).io.inbound@ == old(self).io.inbound@,
        r matches Err(e) ==> (e is Disconnected || e is Transport) && !final(self).live,
        r matches Err(e) ==> e is Disconnected ==> !old(self).live,
        r is Ok ==> reader_same(cs(*final(self)).packet_reader, cs(*old(self)).packet_reader),
        r is Ok ==> final(self).live && flushed_upd(cs(*final(self)).data.outbound, cs(*old(self)).data.outbound, packet)
            && rt_frame_ka(cs(*final(self)).runtime, cs(*old(self)).runtime)
            && cs(*final(self)).runtime.ping_timeout == (if packet matches FlushedPacket::Control(ControlAction::PingReq)
                { Some(instant_plus(now, Duration { t: Ghost((ROUND_TRIP_TIMEOUT_MS * 1000) as nat) })) } else { cs(*old(self)).runtime.ping_timeout }),
        (old(self).live && r is Err) ==> armed(cs(*final(self)).data.outbound, cs(*old(self)).data.outbound),
        same_inflight(cs(*final(self)).data.outbound, cs(*old(self)).data.outbound) && cs(*final(self)).runtime.send_quota == cs(*old(self)).runtime.send_quota,
        sd_frame(cs(*final(self)).data, cs(*old(self)).data)
            && cs(*final(self)).data.pending_server_packet_ids@ == cs(*old(self)).data.pending_server_packet_ids@
            && final(self).event == old(self).event && cfg_same(cs(*final(self)), cs(*old(self))),
        cs(*final(self)).runtime.maximum_packet_size == cs(*old(self)).runtime.maximum_packet_size
            && cs(*final(self)).runtime.max_send_quota == cs(*old(self)).runtime.max_send_quota
            && cs(*final(self)).runtime.max_qos == cs(*old(self)).runtime.max_qos
            && cs(*final(self)).runtime.keepalive_interval == cs(*old(self)).runtime.keepalive_interval,
        conn_inv(*final(self)),
{
        if !self.live {
            return Err(Error::Disconnected);
        }
        assert(conn_inv(*self));


        if let Err(err) = self.io.flush().await {

            self.handle_disconnect();
            proof { lemma_inflight_armed(cs(*self).data.outbound, cs(*old(self)).data.outbound); }

            return Err(Error::Transport(err));
        }
        self.complete_flush(packet, now);
        proof { lemma_inflight_flushed(cs(*self).data.outbound, cs(*old(self)).data.outbound, packet); }

        Ok(())
    }

#[verifier::spinoff_prover]
async fn perform_outbound_step(
        &mut self,
        step: OutboundStep,
        now: Instant,
    ) -> (r: Result<bool, Error<IoErr>>)
    requires
        conn_inv(*old(self)),
        next_step_spec(cs(*old(self)).data.outbound) == Some(step),
    ensures
        !old(self).live ==> r is Err && final(self).io == old(self).io && *final(self).session == *old(self).session,
        final(self).live ==> old(self).live,
        match step_state(step) {
            SendState::Write { written } => wire_ext(old(self).io.wire@, final(self).io.wire@, step_bytes(cs(*old(self)).data.outbound, step), written as int),
            _ => final(self).io.wire@ == old(self).io.wire@,
        },
        final(self).io.wire@.len() > old(self).io.wire@.len() ==>
            !too_large(cs(*old(self)).runtime.maximum_packet_size, step_bytes(cs(*old(self)).data.outbound, step).len() as usize),
        r matches Err(e) ==> (e is Transport || e is Disconnected) ==> !final(self).live,
        r matches Err(e) ==> (e is Transport || e is Disconnected || e is WriteZero || e == Error::<IoErr>::Resource(ResourceError::PacketTooLarge)),
        r matches Err(e) ==> e is Disconnected ==> !old(self).live,
        r matches Err(e) ==> (e is WriteZero || e is Resource) ==> final(self).io.wire@ == old(self).io.wire@ && *final(self).session == *old(self).session && final(self).live == old(self).live,
        r matches Ok(b) ==> b,
        r is Ok ==> final(self).live == old(self).live && reader_same(cs(*final(self)).packet_reader, cs(*old(self)).packet_reader)
            && rt_frame_ka(cs(*final(self)).runtime, cs(*old(self)).runtime),
        r is Ok ==> (match step_state(step) {
            SendState::Write { written } => {
                let d = final(self).io.wire@.len() - old(self).io.wire@.len();
                let len = step_bytes(cs(*old(self)).data.outbound, step).len();
                d >= 1 && (if written + d < len { written_upd(cs(*final(self)).data.outbound, cs(*old(self)).data.outbound, step_packet(step), (written + d) as usize, len as usize) }
                 else { flushed_upd(cs(*final(self)).data.outbound, cs(*old(self)).data.outbound, step_packet(step)) })
            },
            _ => flushed_upd(cs(*final(self)).data.outbound, cs(*old(self)).data.outbound, step_packet(step)),
        }),
        sd_frame(cs(*final(self)).data, cs(*old(self)).data)
            && cs(*final(self)).data.pending_server_packet_ids@ == cs(*old(self)).data.pending_server_packet_ids@
            && final(self).event == old(self).event && cfg_same(cs(*final(self)), cs(*old(self))) && final(self).io.inbound@ == old(self).io.inbound@,
        same_inflight(cs(*final(self)).data.outbound, cs(*old(self)).data.outbound) && cs(*final(self)).runtime.send_quota == cs(*old(self)).runtime.send_quota,
        cs(*final(self)).runtime.maximum_packet_size == cs(*old(self)).runtime.maximum_packet_size
            && cs(*final(self)).runtime.max_send_quota == cs(*old(self)).runtime.max_send_quota
            && cs(*final(self)).runtime.max_qos == cs(*old(self)).runtime.max_qos
            && cs(*final(self)).runtime.keepalive_interval == cs(*old(self)).runtime.keepalive_interval,
        conn_inv(*final(self)),
{
        proof { lemma_step_tracked(cs(*self).data.outbound, step); }
        let ghost o0 = cs(*self).data.outbound;


        let mut small_buf = [0u8; CONTROL_PACKET_LEN];
        let runtime = &mut self.session.runtime;
        let data = &mut self.session.data;
        let prepared = match step {
            OutboundStep::Control(step) => match step.state {
                SendState::Write { written } => {

                    let packet = (match serialize_control_packet(
                        &mut small_buf,
                        step.action,
                        runtime.maximum_packet_size,
                    ) { Ok(__v) => __v, Err(__e) => return Err(From::from(__e)) });
                    PreparedStep::Write(WriteStep {
                        packet: FlushedPacket::Control(step.action),
                        bytes: packet,
                        written,
                        len: packet.len(),
                    })
                }
                SendState::Flush => {

                    PreparedStep::Flush(FlushedPacket::Control(step.action))
                }
                SendState::Sent => PreparedStep::Done,
            },
            OutboundStep::Release(step) => match step.state {
                SendState::Write { written } => {

                    let packet = (match serialize_pubrel(
                        &mut small_buf,
                        step.packet_id,
                        step.reason,
                        runtime.maximum_packet_size,
                    ) { Ok(__v) => __v, Err(__e) => return Err(From::from(__e)) });
                    PreparedStep::Write(WriteStep {
                        packet: FlushedPacket::Release(step.packet_id),
                        bytes: packet,
                        written,
                        len: packet.len(),
                    })
                }
                SendState::Flush => {

                    PreparedStep::Flush(FlushedPacket::Release(step.packet_id))
                }
                SendState::Sent => PreparedStep::Done,
            },
            OutboundStep::Retained(step) => match step.state {
                SendState::Write { written } => {

                    (match runtime.require_packet_size(step.len) { Ok(__v) => __v, Err(__e) => return Err(From::from(__e)) });
                    PreparedStep::Write(WriteStep {
                        packet: FlushedPacket::Retained(step.packet_id),
                        bytes: data.outbound.retained_packet(step.offset, step.len),
                        written,
                        len: step.len,
                    })
                }
                SendState::Flush => {

                    PreparedStep::Flush(FlushedPacket::Retained(step.packet_id))
                }
                SendState::Sent => PreparedStep::Done,
            },
        };

        let packet = match prepared {
            PreparedStep::Write(packet) => packet,
            PreparedStep::Flush(packet) => {
        assert(conn_inv(*self));


                (match self.flush_current(packet, now).await { Ok(__v) => __v, Err(__e) => return Err(From::from(__e)) });
                return Ok(true);
            }
            PreparedStep::Done => return Ok(false),
        };

        if !self.live {
            return Err(Error::Disconnected);
        }
        let WriteStep {
            packet,
            bytes,
            written,
            len,
        } = packet;
        let count = match write_current(&mut self.io, &bytes[written..]).await {
            Ok(count) => count,
            Err(Error::Transport(err)) => {

                self.handle_disconnect();
                proof { lemma_inflight_armed(cs(*self).data.outbound, o0); }

                return Err(Error::Transport(err));
            }
            Err(err) => return Err(err),
        };
        let written = written + count;
        self.set_written(packet, written, len);
        let ghost o1 = cs(*self).data.outbound;
        proof { lemma_written_then_flushed(o1, o1, o0, packet, written, len); lemma_inflight_written(o1, o0, packet, written, len); }

        if written < len {
            return Ok(true);
        }
        assert(conn_inv(*self));


        (match self.flush_current(packet, now).await { Ok(__v) => __v, Err(__e) => return Err(From::from(__e)) });
        proof { lemma_written_then_flushed(cs(*self).data.outbound, o1, o0, packet, written, len); lemma_inflight_trans(cs(*self).data.outbound, o1, o0); }

        Ok(true)
    }

#[verifier::spinoff_prover]
fn should_queue_pingreq(&self, now: Instant) -> (r: bool)
    ensures
        r == ping_due(cs(*self), now),
{
        self.session.runtime.ping_timeout.is_none()
            && (match self
                .session
                .runtime
                .next_ping { Some(deadline) => now >= deadline, None => false })
            && !self.session.data.outbound.has_pending_pingreq()
    }

#[verifier::spinoff_prover]
fn maybe_queue_pingreq(&mut self, now: Instant) -> (r: Result<(), Error<IoErr>>)
    requires
        conn_inv(*old(self)),
    ensures
        final(self).io == old(self).io && final(self).live == old(self).live && final(self).event == old(self).event && cfg_same(cs(*final(self)), cs(*old(self)))
            && cs(*final(self)).runtime == cs(*old(self)).runtime && reader_same(cs(*final(self)).packet_reader, cs(*old(self)).packet_reader)
            && sd_frame(cs(*final(self)).data, cs(*old(self)).data)
            && cs(*final(self)).data.pending_server_packet_ids@ == cs(*old(self)).data.pending_server_packet_ids@,
        !ping_due(cs(*old(self)), now) ==> r is Ok && same_outbound(cs(*final(self)).data.outbound, cs(*old(self)).data.outbound),
        ping_due(cs(*old(self)), now) ==> (
            if too_large(cs(*old(self)).runtime.maximum_packet_size, 2) {
                r == Err::<(), Error<IoErr>>(Error::Resource(ResourceError::PacketTooLarge)) && same_outbound(cs(*final(self)).data.outbound, cs(*old(self)).data.outbound)
            } else if cs(*old(self)).data.outbound.pending_control@.len() >= MAX_PENDING_CONTROL {
                r == Err::<(), Error<IoErr>>(Error::Resource(ResourceError::InflightExhausted)) && same_outbound(cs(*final(self)).data.outbound, cs(*old(self)).data.outbound)
            } else {
                r is Ok && ctl_pushed(cs(*final(self)).data.outbound, cs(*old(self)).data.outbound, ControlAction::PingReq)
            }),
        conn_inv(*final(self)),
{
        if self.should_queue_pingreq(now) {
            (match check_control_packet_size(
                self.session.runtime.maximum_packet_size,
                ControlAction::PingReq,
            ) { Ok(__v) => __v, Err(__e) => return Err(From::from(__e)) });
            (match self.session
                .data
                .outbound
                .queue_control(ControlAction::PingReq) { Ok(__v) => __v, Err(__e) => return Err(From::from(__e)) });
        }
        Ok(())
    }

#[verifier::spinoff_prover]
async fn service_outbound_once(&mut self, now: Instant) -> (r: Result<bool, Error<IoErr>>)
    requires
        conn_inv(*old(self)),
    ensures
        !old(self).live ==> final(self).io == old(self).io && !final(self).live,
        final(self).live ==> old(self).live,
        r matches Err(e) ==> (e is Transport || e is Disconnected) ==> !final(self).live,
        r matches Err(e) ==> (e is Transport || e is Disconnected || e is WriteZero || e is Resource),
        r matches Err(e) ==> e is Disconnected ==> !old(self).live,
        r is Ok ==> final(self).live == old(self).live,
        r matches Ok(b) ==> !b ==> final(self).io == old(self).io && next_step_spec(cs(*final(self)).data.outbound) is None,
        sd_frame(cs(*final(self)).data, cs(*old(self)).data)
            && cs(*final(self)).data.pending_server_packet_ids@ == cs(*old(self)).data.pending_server_packet_ids@
            && final(self).event == old(self).event && cfg_same(cs(*final(self)), cs(*old(self))) && final(self).io.inbound@ == old(self).io.inbound@,
        same_inflight(cs(*final(self)).data.outbound, cs(*old(self)).data.outbound) && cs(*final(self)).runtime.send_quota == cs(*old(self)).runtime.send_quota,
        conn_inv(*final(self)),
{
        (match self.maybe_queue_pingreq(now) { Ok(__v) => __v, Err(__e) => return Err(From::from(__e)) });
        let Some(step) = self.session.data.outbound.next_step() else {
            return Ok(false);
        };
        assert(conn_inv(*self));


        self.perform_outbound_step(step, now).await
    }

#[verifier::spinoff_prover]
async fn service(&mut self, now: Instant) -> (r: Result<bool, Error<IoErr>>)
    requires
        conn_inv(*old(self)),
    ensures
        ping_expired(cs(*old(self)), now) ==> r == Err::<bool, Error<IoErr>>(Error::Disconnected) && !final(self).live && final(self).io == old(self).io,
        (old(self).live && !ping_expired(cs(*old(self)), now)) ==> !(r matches Err(Error::Disconnected)),
        !old(self).live ==> final(self).io == old(self).io && !final(self).live,
        final(self).live ==> old(self).live,
        r matches Err(e) ==> (e is Transport || e is Disconnected) ==> !final(self).live,
        r matches Err(e) ==> (e is Transport || e is Disconnected || e is WriteZero || e is Resource),
        r is Ok ==> final(self).live == old(self).live,
        r matches Ok(b) ==> !b ==> final(self).io == old(self).io && next_step_spec(cs(*final(self)).data.outbound) is None,
        sd_frame(cs(*final(self)).data, cs(*old(self)).data)
            && cs(*final(self)).data.pending_server_packet_ids@ == cs(*old(self)).data.pending_server_packet_ids@
            && final(self).event == old(self).event && cfg_same(cs(*final(self)), cs(*old(self))) && final(self).io.inbound@ == old(self).io.inbound@,
        same_inflight(cs(*final(self)).data.outbound, cs(*old(self)).data.outbound) && cs(*final(self)).runtime.send_quota == cs(*old(self)).runtime.send_quota,
        conn_inv(*final(self)),
{
        let runtime = &mut self.session.runtime;
        if (match runtime
            .ping_timeout { Some(deadline) => now >= deadline, None => false })
        {

            self.handle_disconnect();
            return Err(Error::Disconnected);
        }
        assert(conn_inv(*self));


        self.service_outbound_once(now).await
    }

#[verifier::spinoff_prover]
async fn read_packet(&mut self) -> (r: Result<(), Error<IoErr>>)
    requires
        conn_inv(*old(self)),
    ensures
        !old(self).live ==> r == Err::<(), Error<IoErr>>(Error::Disconnected) && final(self).io == old(self).io && *final(self).session == *old(self).session,
        final(self).live ==> old(self).live,
        final(self).io.wire@ == old(self).io.wire@,
        r matches Err(e) ==> !final(self).live && (e is Transport || e is Disconnected || e == Error::<IoErr>::Peer(PeerError::InvalidPacket)),
        r is Ok ==> final(self).live && reader_ready(cs(*final(self)).packet_reader)
            && cs(*final(self)).runtime == cs(*old(self)).runtime
            && same_outbound(cs(*final(self)).data.outbound, cs(*old(self)).data.outbound)
            && stream_ext(final(self).io.inbound@, old(self).io.inbound@, rbuf(cs(*final(self)).packet_reader), rbuf(cs(*old(self)).packet_reader),
                cs(*final(self)).packet_reader.read_bytes as int, cs(*old(self)).packet_reader.read_bytes as int),
        sd_frame(cs(*final(self)).data, cs(*old(self)).data)
            && cs(*final(self)).data.pending_server_packet_ids@ == cs(*old(self)).data.pending_server_packet_ids@
            && final(self).event == old(self).event && cfg_same(cs(*final(self)), cs(*old(self))),
        conn_inv(*final(self)),
{
        if !self.live {
            return Err(Error::Disconnected);
        }
        assert(conn_inv(*self));


        if let Err(err) = fill_packet_reader(&mut self.session.packet_reader, &mut self.io).await {
            match &err {
                Error::Transport(err) => (),
                Error::Disconnected => (),
                _ => {}
            }
            self.handle_disconnect();
            return Err(err);
        }
        Ok(())
    }

#[verifier::spinoff_prover]
fn process_received_packet(&mut self) -> (r: Result<Option<usize>, Error<IoErr>>)
    requires
        conn_inv(*old(self)),
    ensures
        final(self).io == old(self).io && final(self).event == old(self).event && cfg_same(cs(*final(self)), cs(*old(self))),
        final(self).live ==> old(self).live,
        !reader_avail(cs(*old(self)).packet_reader) ==> r == Ok::<Option<usize>, Error<IoErr>>(None) && *final(self).session == *old(self).session && final(self).live == old(self).live,
        reader_avail(cs(*old(self)).packet_reader) ==> cs(*final(self)).packet_reader.read_bytes == 0 && cs(*final(self)).packet_reader.packet_length is None
            && rbuf(cs(*final(self)).packet_reader) == rbuf(cs(*old(self)).packet_reader),
        (reader_avail(cs(*old(self)).packet_reader) && parse_packet(rbuf(cs(*old(self)).packet_reader).subrange(0, cs(*old(self)).packet_reader.packet_length->Some_0 as int)) is Err) ==>
            r == Err::<Option<usize>, Error<IoErr>>(Error::Peer(PeerError::InvalidPacket)) && !final(self).live
            && armed(cs(*final(self)).data.outbound, cs(*old(self)).data.outbound),
        r matches Err(e) ==> (e is Disconnected || e == Error::<IoErr>::Peer(PeerError::InvalidPacket) || e == Error::<IoErr>::Resource(ResourceError::PacketTooLarge)) ==> !final(self).live,
        r matches Err(e) ==> (e is Disconnected || e is Peer || e is Resource),
        r matches Err(e) ==> !(e is Disconnected || e == Error::<IoErr>::Peer(PeerError::InvalidPacket) || e == Error::<IoErr>::Resource(ResourceError::PacketTooLarge)) ==> final(self).live == old(self).live,
        r is Ok ==> final(self).live == old(self).live,
        r matches Ok(Some(n)) ==> cs(*old(self)).packet_reader.packet_length == Some(n) && n <= rbuf(cs(*old(self)).packet_reader).len()
            && (parse_packet(rbuf(cs(*final(self)).packet_reader).subrange(0, n as int)) matches Ok(p) && p is Publish),
        sd_frame(cs(*final(self)).data, cs(*old(self)).data),
        conn_inv(*final(self)),
{
        if !self.session.packet_reader.packet_available() {
            return Ok(None);
        }

        let (packet_length, packet) = match self.session.packet_reader.take_packet() {
            Ok(packet) => packet,
            Err(err) => {

                self.handle_disconnect();
                return Err(err.into());
            }
        };
        match self
            .session
            .data
            .handle_packet(&mut self.session.runtime, packet)
        {
            Ok(true) => Ok(Some(packet_length)),
            Ok(false) => Ok(None),
            Err(Error::Disconnected) => {

                self.handle_disconnect();
                Err(Error::Disconnected)
            }
            Err(Error::Peer(PeerError::InvalidPacket)) => {

                self.handle_disconnect();
                Err(Error::Peer(PeerError::InvalidPacket))
            }
            Err(Error::Resource(ResourceError::PacketTooLarge)) => {

                self.handle_disconnect();
                Err(Error::Resource(ResourceError::PacketTooLarge))
            }
            Err(Error::Peer(err)) => Err(Error::Peer(err)),
            Err(Error::Resource(err)) => Err(Error::Resource(err)),
            Err(Error::InvalidRequest | Error::NotReady | Error::WriteZero) => {
                unreachable!("packet handler returned local I/O state")
            }
            Err(Error::Transport(never)) => vstd::pervasive::unreached(),
        }
    }

#[verifier::spinoff_prover]
fn decode_inbound_publish(&self, packet_length: usize) -> (r: InboundPublish<'_>)
    requires
        packet_length <= rbuf(cs(*self).packet_reader).len()
            && (parse_packet(rbuf(cs(*self).packet_reader).subrange(0, packet_length as int)) matches Ok(p) && p is Publish),
    ensures
        ({ let info = parse_packet(rbuf(cs(*self).packet_reader).subrange(0, packet_length as int))->Ok_0->Publish_0;
           r.topic == info.topic.0 && r.payload == info.payload && r.properties == info.properties && r.retain == info.retain && r.qos == info.qos }),
{
        let buffer = &self.session.packet_reader.buffer[..];
        proof { assert(buffer@ =~= rbuf(cs(*self).packet_reader)); }

        let ReceivedPacket::Publish(info) = ReceivedPacket::from_buffer(&buffer[..packet_length])
            .expect("inbound packet must remain decodable")
        else {
            unreachable!("inbound event must be a PUBLISH");
        };
        InboundPublish::new(
            info.topic.0,
            info.payload,
            info.properties,
            info.retain,
            info.qos,
        )
    }

#[verifier::spinoff_prover]
#[verifier::exec_allows_no_decreases_clause]
async fn flush_outbound(&mut self) -> (r: Result<(), Error<IoErr>>)
    requires
        conn_inv(*old(self)),
    ensures
        !old(self).live ==> final(self).io == old(self).io && !final(self).live,
        final(self).live ==> old(self).live,
        r is Ok ==> next_step_spec(cs(*final(self)).data.outbound) is None && final(self).live == old(self).live,
        r matches Err(e) ==> (e is Transport || e is Disconnected) ==> !final(self).live,
        r matches Err(e) ==> (e is Transport || e is Disconnected || e is WriteZero || e is Resource),
        r matches Err(e) ==> (e is Resource || e is WriteZero) ==> final(self).live == old(self).live,
        r matches Err(e) ==> e is Disconnected ==> !old(self).live,
        sd_frame(cs(*final(self)).data, cs(*old(self)).data)
            && cs(*final(self)).data.pending_server_packet_ids@ == cs(*old(self)).data.pending_server_packet_ids@
            && final(self).event == old(self).event && cfg_same(cs(*final(self)), cs(*old(self))) && final(self).io.inbound@ == old(self).io.inbound@
            && (reader_same(cs(*final(self)).packet_reader, cs(*old(self)).packet_reader) || !final(self).live),
        same_inflight(cs(*final(self)).data.outbound, cs(*old(self)).data.outbound) && cs(*final(self)).runtime.send_quota == cs(*old(self)).runtime.send_quota,
        cs(*final(self)).runtime.maximum_packet_size == cs(*old(self)).runtime.maximum_packet_size
            && cs(*final(self)).runtime.max_send_quota == cs(*old(self)).runtime.max_send_quota
            && cs(*final(self)).runtime.max_qos == cs(*old(self)).runtime.max_qos
            && cs(*final(self)).runtime.keepalive_interval == cs(*old(self)).runtime.keepalive_interval,
        conn_inv(*final(self)),
{
        loop 
            invariant
                conn_inv(*self),
                self.live ==> old(self).live,
                !old(self).live ==> self.io == old(self).io && !self.live,
                self.live == old(self).live,
                sd_frame(cs(*self).data, cs(*old(self)).data),
                cs(*self).data.pending_server_packet_ids@ == cs(*old(self)).data.pending_server_packet_ids@,
                self.event == old(self).event && cfg_same(cs(*self), cs(*old(self))), self.io.inbound@ == old(self).io.inbound@,
                reader_same(cs(*self).packet_reader, cs(*old(self)).packet_reader),
                same_inflight(cs(*self).data.outbound, cs(*old(self)).data.outbound),
                cs(*self).runtime.send_quota == cs(*old(self)).runtime.send_quota,
                cs(*self).runtime.maximum_packet_size == cs(*old(self)).runtime.maximum_packet_size
                    && cs(*self).runtime.max_send_quota == cs(*old(self)).runtime.max_send_quota
                    && cs(*self).runtime.max_qos == cs(*old(self)).runtime.max_qos
                    && cs(*self).runtime.keepalive_interval == cs(*old(self)).runtime.keepalive_interval,
{
            (match self.maybe_queue_pingreq(Instant::now()) { Ok(__v) => __v, Err(__e) => return Err(From::from(__e)) });
            let Some(step) = self.session.data.outbound.next_step() else {
                return Ok(());
            };
        assert(conn_inv(*self));


            (match self.perform_outbound_step(step, Instant::now()).await { Ok(__v) => __v, Err(__e) => return Err(From::from(__e)) });
        }
    }

#[verifier::spinoff_prover]
#[verifier::exec_allows_no_decreases_clause]
async fn drive_packet(&mut self) -> (r: Result<Progress, Error<IoErr>>)
    requires
        conn_inv(*old(self)),
    ensures
        !old(self).live ==> r == Err::<Progress, Error<IoErr>>(Error::Disconnected) && final(self).io == old(self).io && *final(self).session == *old(self).session,
        final(self).live ==> old(self).live,
        r matches Err(e) ==> (e is Transport || e is Disconnected || e == Error::<IoErr>::Peer(PeerError::InvalidPacket)) ==> !final(self).live,
        r matches Err(e) ==> (e is Transport || e is Disconnected || e is WriteZero || e is Resource || e is Peer),
        r is Ok ==> final(self).live,
        r matches Ok(Progress::Inbound(n)) ==> decodable(cs(*final(self)), n),
        r matches Ok(Progress::Idle) ==> final(self).io == old(self).io && next_step_spec(cs(*final(self)).data.outbound) is None
            && !reader_avail(cs(*final(self)).packet_reader),
        r matches Ok(Progress::Advanced) ==> next_step_spec(cs(*final(self)).data.outbound) is None && !reader_avail(cs(*final(self)).packet_reader),
        sd_frame(cs(*final(self)).data, cs(*old(self)).data) && final(self).event == old(self).event && cfg_same(cs(*final(self)), cs(*old(self))),
        conn_inv(*final(self)),
{
        if !self.live {
            return Err(Error::Disconnected);
        }
        let mut advanced = false;
        loop 
            invariant
                conn_inv(*self), self.live, old(self).live,
                !advanced ==> self.io == old(self).io,
                sd_frame(cs(*self).data, cs(*old(self)).data), self.event == old(self).event && cfg_same(cs(*self), cs(*old(self))),
{
            if self.session.packet_reader.packet_available() {
                match (match self.process_received_packet() { Ok(__v) => __v, Err(__e) => return Err(From::from(__e)) }) {
                    Some(packet_length) => return Ok(Progress::Inbound(packet_length)),
                    None => {
                        advanced = true;
                        continue;
                    }
                }
            }

            let now = Instant::now();
            {
        assert(conn_inv(*self));

 let __t = (match self.service(now).await { Ok(__v) => __v, Err(__e) => return Err(From::from(__e)) }); advanced = advanced || __t; }

            if self.session.packet_reader.packet_available() {
                match (match self.process_received_packet() { Ok(__v) => __v, Err(__e) => return Err(From::from(__e)) }) {
                    Some(packet_length) => return Ok(Progress::Inbound(packet_length)),
                    None => {
                        advanced = true;
                        continue;
                    }
                }
            }

            if self.session.data.outbound.next_step().is_none() {
                return Ok(if advanced {
                    Progress::Advanced
                } else {
                    Progress::Idle
                });
            }
        }
    }

#[verifier::spinoff_prover]
async fn drive(&mut self) -> (r: Result<Option<InboundPublish<'_>>, Error<IoErr>>)
    requires
        conn_inv(*old(self)),
    ensures
        !old(self).live ==> (r matches Err(Error::Disconnected)) && final(self).io == old(self).io && *final(self).session == *old(self).session,
        final(self).live ==> old(self).live,
        r matches Err(e) ==> (e is Transport || e is Disconnected || e == Error::<IoErr>::Peer(PeerError::InvalidPacket)) ==> !final(self).live,
        conn_inv(*final(self)),
{
        assert(conn_inv(*self));


        Ok(match (match self.drive_packet().await { Ok(__v) => __v, Err(__e) => return Err(From::from(__e)) }) {
            Progress::Inbound(packet_length) => Some(self.decode_inbound_publish(packet_length)),
            Progress::Idle | Progress::Advanced => None,
        })
    }

#[verifier::spinoff_prover]
#[verifier::exec_allows_no_decreases_clause]
async fn wait_for_progress(&mut self) -> (r: Result<Progress, Error<IoErr>>)
    requires
        conn_inv(*old(self)),
    ensures
        !old(self).live ==> r == Err::<Progress, Error<IoErr>>(Error::Disconnected) && final(self).io == old(self).io && *final(self).session == *old(self).session,
        final(self).live ==> old(self).live,
        r matches Err(e) ==> (e is Transport || e is Disconnected || e == Error::<IoErr>::Peer(PeerError::InvalidPacket)) ==> !final(self).live,
        !(r matches Ok(Progress::Idle)),
        r is Ok ==> final(self).live,
        r matches Ok(Progress::Inbound(n)) ==> decodable(cs(*final(self)), n),
        sd_frame(cs(*final(self)).data, cs(*old(self)).data) && final(self).event == old(self).event && cfg_same(cs(*final(self)), cs(*old(self))),
        conn_inv(*final(self)),
{
        loop 
            invariant
                conn_inv(*self), self.live ==> old(self).live,
                !old(self).live ==> self.io == old(self).io && *self.session == *old(self).session && !self.live,
                sd_frame(cs(*self).data, cs(*old(self)).data), self.event == old(self).event && cfg_same(cs(*self), cs(*old(self))),
{
        assert(conn_inv(*self));


            match (match self.drive_packet().await { Ok(__v) => __v, Err(__e) => return Err(From::from(__e)) }) {
                Progress::Inbound(packet_length) => {
                    return Ok(Progress::Inbound(packet_length));
                }
                Progress::Advanced => return Ok(Progress::Advanced),
                Progress::Idle => {}
            }

            let deadline = self.session.runtime.next_deadline();
        assert(conn_inv(*self));
        assert(conn_inv(*self));



            match deadline {
                Some(deadline) => match self.read_packet_until(deadline).await {
                    Ok(Ok(())) => {}
                    Ok(Err(err)) => return Err(err),
                    Err(_) => continue,
                },
                None => (match self.read_packet().await { Ok(__v) => __v, Err(__e) => return Err(From::from(__e)) }),
            }
        }
    }

#[verifier::spinoff_prover]
async fn poll(&mut self) -> (r: Result<Option<InboundPublish<'_>>, Error<IoErr>>)
    requires
        conn_inv(*old(self)),
    ensures
        !old(self).live ==> (r matches Err(Error::Disconnected)) && final(self).io == old(self).io && *final(self).session == *old(self).session,
        final(self).live ==> old(self).live,
        r matches Err(e) ==> (e is Transport || e is Disconnected || e == Error::<IoErr>::Peer(PeerError::InvalidPacket)) ==> !final(self).live,
        conn_inv(*final(self)),
{
        assert(conn_inv(*self));


        match (match self.wait_for_progress().await { Ok(__v) => __v, Err(__e) => return Err(From::from(__e)) }) {
            Progress::Inbound(packet_length) => {
                Ok(Some(self.decode_inbound_publish(packet_length)))
            }
            Progress::Advanced => Ok(None),
            Progress::Idle => unreachable!("wait_for_progress only returns after session progress"),
        }
    }

#[verifier::spinoff_prover]
#[verifier::exec_allows_no_decreases_clause]
async fn recv(&mut self) -> (r: Result<InboundPublish<'_>, Error<IoErr>>)
    requires
        conn_inv(*old(self)),
    ensures
        !old(self).live ==> (r matches Err(Error::Disconnected)) && final(self).io == old(self).io && *final(self).session == *old(self).session,
        final(self).live ==> old(self).live,
        r matches Err(e) ==> (e is Transport || e is Disconnected || e == Error::<IoErr>::Peer(PeerError::InvalidPacket)) ==> !final(self).live,
        conn_inv(*final(self)),
{
        loop 
            invariant
                conn_inv(*self), self.live ==> old(self).live,
                !old(self).live ==> self.io == old(self).io && *self.session == *old(self).session && !self.live,
{
        assert(conn_inv(*self));


            match (match self.wait_for_progress().await { Ok(__v) => __v, Err(__e) => return Err(From::from(__e)) }) {
                Progress::Inbound(packet_length) => {
                    return Ok(self.decode_inbound_publish(packet_length));
                }
                Progress::Advanced => {}
                Progress::Idle => {
                    unreachable!("wait_for_progress only returns after session progress")
                }
            }
        }
    }

    /// X14: `with_deadline(deadline, self.read_packet())` — the read future is dropped at its await point on time-out
    #[verifier::external_body]
    async fn read_packet_until(&mut self, deadline: Instant) -> (r: Result<Result<(), Error<IoErr>>, TimeoutError>)
        requires conn_inv(*old(self))
        ensures
            !old(self).live ==> (r matches Ok(Err(Error::Disconnected)) || r is Err) && final(self).io == old(self).io && *final(self).session == *old(self).session,
            final(self).live ==> old(self).live,
            final(self).io.wire@ == old(self).io.wire@,
            r matches Ok(Err(e)) ==> !final(self).live && (e is Transport || e is Disconnected || e == Error::<IoErr>::Peer(PeerError::InvalidPacket)),
            r matches Ok(Ok(_)) ==> final(self).live && reader_ready(cs(*final(self)).packet_reader)
                && cs(*final(self)).runtime == cs(*old(self)).runtime
                && same_outbound(cs(*final(self)).data.outbound, cs(*old(self)).data.outbound),
            r is Err ==> final(self).live == old(self).live && cs(*final(self)).runtime == cs(*old(self)).runtime
                && same_outbound(cs(*final(self)).data.outbound, cs(*old(self)).data.outbound),
            r is Ok || r is Err ==> stream_ext(final(self).io.inbound@, old(self).io.inbound@, rbuf(cs(*final(self)).packet_reader), rbuf(cs(*old(self)).packet_reader),
                cs(*final(self)).packet_reader.read_bytes as int, cs(*old(self)).packet_reader.read_bytes as int) || !final(self).live,
            sd_frame(cs(*final(self)).data, cs(*old(self)).data)
                && cs(*final(self)).data.pending_server_packet_ids@ == cs(*old(self)).data.pending_server_packet_ids@
                && final(self).event == old(self).event && cfg_same(cs(*final(self)), cs(*old(self))),
            conn_inv(*final(self)),
    { unimplemented!() }
}

#[verifier::spinoff_prover]
async fn write_current(connection: &mut VIo, bytes: &[u8]) -> (r: Result<usize, Error<IoErr>>)
    ensures
        r matches Ok(n) ==> 0 < n <= bytes@.len() && final(connection).wire@ == old(connection).wire@ + bytes@.subrange(0, n as int),
        r is Err ==> final(connection).wire@ == old(connection).wire@,
        r matches Err(e) ==> (e is WriteZero || e is Transport),
        final(connection).ops@ == old(connection).ops@ + 1 && final(connection).inbound@ == old(connection).inbound@,
{
    match connection.write(bytes).await {
        Ok(0) => {

            Err(Error::WriteZero)
        }
        Ok(count) => Ok(count),
        Err(err) => Err(Error::Transport(err)),
    }
}


/// number of bytes still missing before `packet_available()`; lexicographic with the phase
pub open spec fn reader_phase(r: PacketReader) -> int { if r.packet_length is None { 1 } else { 0 } }
pub open spec fn reader_missing(r: PacketReader) -> int {
    match r.packet_length { Some(t) => t - r.read_bytes, None => 5 - r.read_bytes }
}
/// the bytes consumed from the transport since the call are exactly buf[rb0..rb1]; what was
/// committed before is untouched (stated pointwise so that no extensionality is needed)
pub open spec fn stream_ext(in1: Seq<u8>, in0: Seq<u8>, buf1: Seq<u8>, buf0: Seq<u8>, rb1: int, rb0: int) -> bool {
    &&& in1.len() == in0.len() + rb1 - rb0 && 0 <= rb0 <= rb1 <= buf1.len() && buf1.len() == buf0.len()
    &&& forall|k: int| 0 <= k < in0.len() ==> #[trigger] in1[k] == in0[k]
    &&& forall|k: int| 0 <= k < rb1 - rb0 ==> #[trigger] in1[in0.len() + k] == buf1[rb0 + k]
    &&& forall|k: int| 0 <= k < rb0 ==> #[trigger] buf1[k] == buf0[k]
}
/// the completed inbound packet of length n is still in the receive buffer and decodes to a PUBLISH
pub open spec fn decodable(s: Session, n: usize) -> bool {
    n <= rbuf(s.packet_reader).len() && (parse_packet(rbuf(s.packet_reader).subrange(0, n as int)) matches Ok(p) && p is Publish)
}
pub struct TimeoutError;
pub open spec fn reader_avail(r: PacketReader) -> bool { r.packet_length matches Some(t) && r.read_bytes >= t }
pub open spec fn reader_ready(r: PacketReader) -> bool {
    r.packet_length matches Some(t) && r.read_bytes >= t && t <= rbuf(r).len()
}

#[verifier::spinoff_prover]
async fn fill_packet_reader<'buf>(
    packet_reader: &mut PacketReader<'buf>,
    connection: &mut VIo,
) -> (r: Result<(), Error<IoErr>>)
    requires
        reader_inv(*old(packet_reader)),
    ensures
        reader_inv(*final(packet_reader)),
        r is Ok ==> reader_ready(*final(packet_reader)),
        final(connection).wire@ == old(connection).wire@,
        r matches Err(e) ==> (e is Transport || e is Disconnected || e == Error::<IoErr>::Peer(PeerError::InvalidPacket)),
        stream_ext(final(connection).inbound@, old(connection).inbound@, rbuf(*final(packet_reader)), rbuf(*old(packet_reader)),
            final(packet_reader).read_bytes as int, old(packet_reader).read_bytes as int),
{
    while !packet_reader.packet_available() 
        invariant
            reader_inv(*packet_reader),
            connection.wire@ == old(connection).wire@,
            stream_ext(connection.inbound@, old(connection).inbound@, rbuf(*packet_reader), rbuf(*old(packet_reader)),
                packet_reader.read_bytes as int, old(packet_reader).read_bytes as int),
        ensures
            reader_ready(*packet_reader),
        decreases reader_phase(*packet_reader), reader_missing(*packet_reader)
{
        let buffer = (match packet_reader.receive_buffer() { Ok(__v) => __v, Err(__e) => return Err(From::from(__e)) });
        if buffer.is_empty() {
            break;
        }

        let count = match connection.read(buffer).await {
            Ok(count) => count,
            Err(err) => return Err(Error::Transport(err)),
        };
        if count == 0 {
            return Err(Error::Disconnected);
        }
        packet_reader.commit(count);

    }

    Ok(())
}

} // verus!

// ======================================================================================
// 70_operations: src/mqtt_client/session/operations.rs + direct writers of outbound.rs
// ======================================================================================
verus! {

#[derive(Copy, Clone)]
pub enum RetainHandling {
    Immediately = 0b00,
    IfSubscriptionDoesNotExist = 0b01,
    Never = 0b10,
}
#[derive(Copy, Clone)]
pub struct SubscriptionOptions {
    pub maximum_qos: QoS,
    pub no_local: bool,
    pub retain_as_published: bool,
    pub retain_behavior: RetainHandling,
}
#[derive(Copy, Clone)]
pub struct TopicFilter<'a> {
    pub topic: Utf8String<'a>,
    pub options: SubscriptionOptions,
}
pub struct Subscribe<'a> {
    pub packet_id: u16,
    pub dup: bool,
    pub properties: Properties<'a>,
    pub topics: &'a [TopicFilter<'a>],
}
pub struct Unsubscribe<'a> {
    pub packet_id: u16,
    pub dup: bool,
    pub properties: Properties<'a>,
    pub topics: &'a [&'a str],
}
pub struct Publication<'a, P> {
    pub topic: &'a str,
    pub properties: Properties<'a>,
    pub qos: QoS,
    pub payload: P,
    pub retain: Retain,
}
#[derive(Copy, Clone)]
pub enum PropertyContext {
    Publish,
    Subscribe,
    Unsubscribe,
    Disconnect,
    Will,
}

pub uninterp spec fn enc_subscribe(p: Subscribe) -> Seq<u8>;
pub uninterp spec fn enc_unsubscribe(p: Unsubscribe) -> Seq<u8>;
pub uninterp spec fn enc_disconnect(p: Disconnect) -> Seq<u8>;
impl Encodable for Subscribe<'_> {
    open spec fn enc(&self) -> Seq<u8> { enc_subscribe(*self) }
    open spec fn encodable(&self) -> bool { true }
}
impl Encodable for Unsubscribe<'_> {
    open spec fn enc(&self) -> Seq<u8> { enc_unsubscribe(*self) }
    open spec fn encodable(&self) -> bool { true }
}
impl Encodable for Disconnect<'_> {
    open spec fn enc(&self) -> Seq<u8> { enc_disconnect(*self) }
    open spec fn encodable(&self) -> bool { true }
}

#[verifier::external_body]
pub proof fn axiom_enc_disconnect_success()
    ensures enc_disconnect(Disconnect { reason_code: None, properties: None }) =~= seq![0xE0u8, 0x00u8]
{}

/// C19: the property table (Kani leaf, kani/props.rs): every property of the set is legal for the context
pub uninterp spec fn props_valid(p: Properties, ctx: PropertyContext) -> bool;
impl<'a> Properties<'a> {
    #[verifier::external_body]
    pub const fn from_slice(properties: &'a [Property<'a>]) -> (r: Properties<'a>)
        ensures r == (Properties { inner: PropertiesData::Slice(properties) })
    { unimplemented!() }
    #[verifier::external_body]
    pub fn valid_for(&'a self, context: PropertyContext) -> (r: bool)
        ensures r == props_valid(*self, context)
    { unimplemented!() }
}
impl<'a> Disconnect<'a> {
#[verifier::spinoff_prover]
fn success() -> (r: Self)
    ensures
        r.reason_code is None && r.properties is None,
{
        Self {
            reason_code: None,
            properties: None,
        }
    }
#[verifier::spinoff_prover]
fn with_reason(reason_code: ReasonCode) -> (r: Self)
    ensures
        r.reason_code == Some(reason_code) && r.properties is None,
{
        Self {
            reason_code: Some(reason_code),
            properties: None,
        }
    }
#[verifier::spinoff_prover]
fn with_will() -> (r: Self)
    ensures
        r.reason_code == Some(ReasonCode::DisconnectWithWill) && r.properties is None,
{
        Self::with_reason(ReasonCode::DisconnectWithWill)
    }
#[verifier::spinoff_prover]
fn with_properties(self, properties: &'a [Property<'a>]) -> (r: Self)
    ensures
        r.reason_code == (if self.reason_code is None { Some(ReasonCode::Success) } else { self.reason_code })
            && r.properties == Some(Properties { inner: PropertiesData::Slice(properties) }),
{ let mut self__m = self;
        if self__m.reason_code.is_none() {
            self__m.reason_code = Some(ReasonCode::Success);
        }
        self__m.properties = Some(Properties::from_slice(properties));
        self__m
    }
#[verifier::spinoff_prover]
fn reason_code(&self) -> (r: ReasonCode)
    ensures
        r == (match self.reason_code { Some(c) => c, None => ReasonCode::Success }),
{
        self.reason_code.unwrap_or(ReasonCode::Success)
    }
#[verifier::spinoff_prover]
fn properties(&self) -> (r: Option<&Properties<'a>>)
    ensures
        r == (match self.properties { Some(p) => Some(&p), None => None }),
{
        self.properties.as_ref()
    }
}

#[verifier::spinoff_prover]
async fn write_all(
    connection: &mut VIo,
    bytes__0: &[u8],
) -> (r: Result<(), Error<IoErr>>)
    ensures
        r is Ok ==> final(connection).wire@ == old(connection).wire@ + bytes__0@,
        wire_ext(old(connection).wire@, final(connection).wire@, bytes__0@, 0),
        r matches Err(e) ==> (e is WriteZero || e is Transport),
        final(connection).inbound@ == old(connection).inbound@,
{
    let ghost mut k: int = 0;
    proof { assert(old(connection).wire@ =~= old(connection).wire@ + bytes__0@.subrange(0, 0)); assert(bytes__0@ =~= bytes__0@.subrange(0, bytes__0@.len() as int)); }

 let mut bytes = bytes__0;
    while !bytes.is_empty() 
        invariant
            connection.inbound@ == old(connection).inbound@,
            0 <= k <= bytes__0@.len(),
            connection.wire@ =~= old(connection).wire@ + bytes__0@.subrange(0, k),
            bytes@ =~= bytes__0@.subrange(k, bytes__0@.len() as int),
        decreases bytes@.len()
{
        let written = (match (match connection.write(bytes).await { Ok(__v) => Ok(__v), Err(__e) => Err(Error::Transport(__e)) }) { Ok(__v) => __v, Err(__e) => return Err(From::from(__e)) });
        if written == 0 {

            return Err(Error::WriteZero);
        }
        bytes = &bytes[written..];
    
        proof {
            assert(connection.wire@ =~= old(connection).wire@ + bytes__0@.subrange(0, k + written));
            k = k + written;
        }

}
    proof { assert(bytes__0@.subrange(0, k) =~= bytes__0@); }

    Ok(())
}


#[verifier::spinoff_prover]
async fn write_packet<T>(
    buffer: &mut [u8],
    connection: &mut VIo,
    packet: &T,
) -> (r: Result<(), Error<IoErr>>)
where
    T: Encodable,
    ensures
        r is Ok ==> final(connection).wire@ == old(connection).wire@ + packet.enc() && framed(packet.enc()),
        final(connection).wire@ == old(connection).wire@ || wire_ext(old(connection).wire@, final(connection).wire@, packet.enc(), 0),
        r matches Err(e) ==> (e is WriteZero || e is Transport || e == Error::<IoErr>::Resource(ResourceError::BufferTooSmall) || e is InvalidRequest),
        r matches Err(e) ==> (e is Resource || e is InvalidRequest) ==> final(connection).wire@ == old(connection).wire@ && final(connection).ops@ == old(connection).ops@,
        final(connection).inbound@ == old(connection).inbound@,
{
    let bytes = (match MqttSerializer::encode(buffer, packet) { Ok(__v) => __v, Err(__e) => return Err(From::from(__e)) });
    (match write_all(connection, bytes).await { Ok(__v) => __v, Err(__e) => return Err(From::from(__e)) });
    (match (match connection.flush().await { Ok(__v) => Ok(__v), Err(__e) => Err(Error::Transport(__e)) }) { Ok(__v) => __v, Err(__e) => return Err(From::from(__e)) });
    Ok(())
}

/// SessionData frame that allows the packet-id cursor to move
pub open spec fn sd_frame_gen(a: SessionData, b: SessionData) -> bool {
    a.generation == b.generation && a.session_present == b.session_present
}
/// membership, the position of the first match and its length are functions of the in-flight signature
pub proof fn lemma_sig_props(o1: Outbound, o0: Outbound, id: u16)
    requires same_inflight(o1, o0)
    ensures has_ret(o1.retained@, id) == has_ret(o0.retained@, id), has_rel(o1.pending_release@, id) == has_rel(o0.pending_release@, id),
        in_use(o1, id) == in_use(o0, id),
        first_ret(o1.retained@, id) == first_ret(o0.retained@, id),
        has_ret(o0.retained@, id) ==> o1.retained@[first_ret(o1.retained@, id)].len == o0.retained@[first_ret(o0.retained@, id)].len,
{
    let r1 = o1.retained@; let r0 = o0.retained@; let l1 = o1.pending_release@; let l0 = o0.pending_release@;
    assert(r1.len() == ret_sig(r1).len() && r0.len() == ret_sig(r0).len());
    assert(l1.len() == rel_sig(l1).len() && l0.len() == rel_sig(l0).len());
    assert forall|i: int| 0 <= i < r0.len() implies (#[trigger] r1[i]).packet_id == r0[i].packet_id && r1[i].len == r0[i].len by {
        assert(ret_sig(r1)[i] == ret_sig(r0)[i]);
    }
    assert forall|i: int| 0 <= i < l0.len() implies (#[trigger] l1[i]).packet_id == l0[i].packet_id by {
        assert(rel_sig(l1)[i] == rel_sig(l0)[i]);
    }
    if has_ret(r1, id) { let i = choose|i: int| 0 <= i < r1.len() && (#[trigger] r1[i]).packet_id == id; assert(r0[i].packet_id == id); }
    if has_ret(r0, id) { let i = choose|i: int| 0 <= i < r0.len() && (#[trigger] r0[i]).packet_id == id; assert(r1[i].packet_id == id); }
    if has_rel(l1, id) { let i = choose|i: int| 0 <= i < l1.len() && (#[trigger] l1[i]).packet_id == id; assert(l0[i].packet_id == id); }
    if has_rel(l0, id) { let i = choose|i: int| 0 <= i < l0.len() && (#[trigger] l0[i]).packet_id == id; assert(l1[i].packet_id == id); }
    lemma_first_ret_bounds(r0, id); lemma_first_ret_bounds(r1, id);
    if has_ret(r0, id) {
        let k = first_ret(r0, id);
        assert(r1[k].packet_id == id);
        assert forall|j: int| 0 <= j < k implies (#[trigger] r1[j]).packet_id != id by { lemma_first_ret_min(r0, id, j); }
        lemma_first_ret(r1, id, k);
    } else {
        lemma_first_ret_none(r0, id); lemma_first_ret_none(r1, id);
    }
}

/// compaction (same_entries) keeps the in-flight signature
pub proof fn lemma_inflight_entries(o1: Outbound, o0: Outbound)
    requires same_entries(bv(o1), o1.retained@, bv(o0), o0.retained@), o1.pending_release@ == o0.pending_release@,
    ensures same_inflight(o1, o0), w6(o0) ==> w6(o1),
        forall|id: u16| has_ret(o1.retained@, id) == has_ret(o0.retained@, id),
{
    lemma_w6_unfold(o0); lemma_w6_unfold(o1);
    assert(ret_sig(o1.retained@) =~= ret_sig(o0.retained@));
    assert(ids_of(o1) =~= ids_of(o0));
    assert forall|id: u16| has_ret(o1.retained@, id) == has_ret(o0.retained@, id) by {
        if has_ret(o1.retained@, id) { let i = choose|i: int| 0 <= i < o1.retained@.len() && (#[trigger] o1.retained@[i]).packet_id == id; assert(o0.retained@[i].packet_id == id); }
        if has_ret(o0.retained@, id) { let i = choose|i: int| 0 <= i < o0.retained@.len() && (#[trigger] o0.retained@[i]).packet_id == id; assert(o1.retained@[i].packet_id == id); }
    }
}
/// retaining a packet under an unused id keeps W6 and makes the id pending
pub proof fn lemma_retained_pushed(o4: Outbound, o3: Outbound, o2: Outbound, id: u16, offset: usize, len: usize)
    requires
        o4.retained@ == o3.retained@.push(RetainedPacket { packet_id: id, offset, len, state: SendState::Write { written: 0 } }),
        o4.pending_release@ == o3.pending_release@,
        same_entries(bv(o3), o3.retained@, bv(o2), o2.retained@), o3.pending_release@ == o2.pending_release@,
        w6(o2), !in_use(o2, id),
    ensures w6(o4), has_ret(o4.retained@, id),
{
    lemma_w6_unfold(o4); lemma_w6_unfold(o3); lemma_w6_unfold(o2);
    lemma_inflight_entries(o3, o2);
    let a3 = ids_of(o3); let a4 = ids_of(o4);
    let n = o3.retained@.len() as int;
    assert(o4.retained@[n].packet_id == id);
    assert forall|i: int, j: int| 0 <= i < a4.len() && 0 <= j < a4.len() && i != j implies a4[i] != a4[j] by {
        let ii = if i < n { i } else if i == n { -1 } else { i - 1 };
        let jj = if j < n { j } else if j == n { -1 } else { j - 1 };
        if ii >= 0 { assert(a4[i] == a3[ii]); }
        if jj >= 0 { assert(a4[j] == a3[jj]); }
        if ii < 0 || jj < 0 {
            let m = if ii < 0 { jj } else { ii };
            // a3[m] is an id in use in o3, hence in o2; id is not
            if m < n { assert(o3.retained@[m].packet_id == a3[m]); assert(has_ret(o3.retained@, a3[m])); }
            else { assert(o3.pending_release@[m - n].packet_id == a3[m]); assert(has_rel(o2.pending_release@, a3[m])); }
        }
    }
}

/// the first entry with a freshly allocated id is the one just pushed
pub proof fn lemma_len_of_new(o4: Outbound, o3: Outbound, id: u16, offset: usize, len: usize)
    requires o4.retained@ == o3.retained@.push(RetainedPacket { packet_id: id, offset, len, state: SendState::Write { written: 0 } }),
        !has_ret(o3.retained@, id),
    ensures first_ret(o4.retained@, id) == o3.retained@.len(), o4.retained@[first_ret(o4.retained@, id)].len == len
{
    let n = o3.retained@.len() as int;
    assert forall|j: int| 0 <= j < n implies (#[trigger] o4.retained@[j]).packet_id != id by {
        assert(o4.retained@[j] == o3.retained@[j]);
    }
    lemma_first_ret(o4.retained@, id, n);
}

/// C19: the QoS actually used (auto-downgrade to the broker's Maximum QoS when enabled)
pub open spec fn eff_qos(s: Session, q: QoS) -> QoS {
    match s.runtime.max_qos { Some(m) => if s.downgrade_qos && qn(q) > qn(m) { m } else { q }, None => q }
}
pub open spec fn session_can_publish(s: Session, qos: QoS) -> bool {
    if qos == QoS::AtMostOnce { bv(s.data.outbound).len() - total_len(s.data.outbound) >= MAX_FIXED_HEADER_SIZE }
    else { s.runtime.send_quota != 0 && s.data.outbound.retained@.len() < MAX_RETAINED
        && bv(s.data.outbound).len() - total_len(s.data.outbound) >= MAX_FIXED_HEADER_SIZE }
}

impl<'a, 'buf> Connection<'a, 'buf> {
#[verifier::spinoff_prover]
fn require_retained_slot(&self) -> (r: Result<(), Error<IoErr>>)
    ensures
        r == (if cs(*self).data.outbound.retained@.len() == MAX_RETAINED { Err::<(), Error<IoErr>>(Error::Resource(ResourceError::InflightExhausted)) } else { Ok::<(), Error<IoErr>>(()) }),
{
        if self.session.data.outbound.retained_full() {
            return Err(Error::Resource(ResourceError::InflightExhausted));
        }
        Ok(())
    }

#[verifier::spinoff_prover]
async fn disconnect_with(
        &mut self,
        disconnect: Disconnect<'_>,
    ) -> (r: Result<(), Error<IoErr>>)
    requires
        conn_inv(*old(self)),
    ensures
        !old(self).live ==> r is Ok && final(self).io == old(self).io && *final(self).session == *old(self).session && !final(self).live,
        (old(self).live && disconnect.properties is Some && !props_valid(disconnect.properties->Some_0, PropertyContext::Disconnect)) ==>
            r == Err::<(), Error<IoErr>>(Error::InvalidRequest) && final(self).io == old(self).io && *final(self).session == *old(self).session && final(self).live,
        r matches Err(e) ==> (e is InvalidRequest || e is Resource) ==> final(self).io == old(self).io && *final(self).session == *old(self).session && final(self).live == old(self).live,
        (old(self).live && !(disconnect.properties is Some && !props_valid(disconnect.properties->Some_0, PropertyContext::Disconnect))
            && enc_disconnect(disconnect).len() + 3 <= CONTROL_PACKET_LEN
            && !too_large(cs(*old(self)).runtime.maximum_packet_size, enc_disconnect(disconnect).len() as usize)) ==>
            !(r matches Err(Error::InvalidRequest)) && !(r matches Err(Error::Resource(_))),
        (old(self).live && final(self).io.wire@.len() > old(self).io.wire@.len()) ==> !too_large(cs(*old(self)).runtime.maximum_packet_size, enc_disconnect(disconnect).len() as usize),
        final(self).io.wire@ == old(self).io.wire@ || wire_ext(old(self).io.wire@, final(self).io.wire@, enc_disconnect(disconnect), 0),
        (old(self).live && r is Ok) ==> final(self).io.wire@ == old(self).io.wire@ + enc_disconnect(disconnect) && framed(enc_disconnect(disconnect)),
        (old(self).live && !(r matches Err(Error::InvalidRequest)) && !(r matches Err(Error::Resource(_)))) ==> !final(self).live,
        r matches Err(e) ==> (e is InvalidRequest || e is Resource || e is WriteZero || e is Transport),
        (old(self).live && !final(self).live) ==> armed(cs(*final(self)).data.outbound, cs(*old(self)).data.outbound),
        conn_inv(*final(self)),
{
        if !self.live {
            return Ok(());
        }

        if let Some(properties) = disconnect.properties() { if !properties.valid_for(PropertyContext::Disconnect) {
            return Err(Error::InvalidRequest);
        } }
        let mut buffer = [0u8; CONTROL_PACKET_LEN];
        let packet = (match MqttSerializer::encode(&mut buffer, &disconnect) { Ok(__v) => __v, Err(__e) => return Err(From::from(__e)) });
        (match self.session.runtime.require_packet_size(packet.len()) { Ok(__v) => __v, Err(__e) => return Err(From::from(__e)) });
        assert(conn_inv(*self));
        assert(conn_inv(*self));


        let result = match write_all(&mut self.io, packet).await {
            Ok(()) => (match self.io.flush().await { Ok(__v) => Ok(__v), Err(__e) => Err(Error::Transport(__e)) }),
            Err(err) => Err(err),
        };

        self.handle_disconnect();
        result
    }

#[verifier::spinoff_prover]
async fn disconnect_with__d7(
        &mut self,
        disconnect: Disconnect<'_>,
    ) -> (r: Result<(), Error<IoErr>>)
    requires
        conn_inv(*old(self)),
    ensures
        final(self).io.wire@.len() > old(self).io.wire@.len() ==> no_in_progress(cs(*old(self)).data.outbound),
{
        if !self.live {
            return Ok(());
        }

        if let Some(properties) = disconnect.properties() { if !properties.valid_for(PropertyContext::Disconnect) {
            return Err(Error::InvalidRequest);
        } }
        let mut buffer = [0u8; CONTROL_PACKET_LEN];
        let packet = (match MqttSerializer::encode(&mut buffer, &disconnect) { Ok(__v) => __v, Err(__e) => return Err(From::from(__e)) });
        (match self.session.runtime.require_packet_size(packet.len()) { Ok(__v) => __v, Err(__e) => return Err(From::from(__e)) });
        let result = match write_all(&mut self.io, packet).await {
            Ok(()) => (match self.io.flush().await { Ok(__v) => Ok(__v), Err(__e) => Err(Error::Transport(__e)) }),
            Err(err) => Err(err),
        };

        self.handle_disconnect();
        result
    }

#[verifier::spinoff_prover]
async fn disconnect(&mut self) -> (r: Result<(), Error<IoErr>>)
    requires
        conn_inv(*old(self)),
    ensures
        !old(self).live ==> r is Ok && final(self).io == old(self).io && *final(self).session == *old(self).session && !final(self).live,
        !too_large(cs(*old(self)).runtime.maximum_packet_size, 2) ==> !final(self).live,
        conn_inv(*final(self)),
{
        proof { axiom_enc_disconnect_success(); }
        assert(conn_inv(*self));


        self.disconnect_with(Disconnect::success()).await
    }

#[verifier::spinoff_prover]
async fn subscribe(
        &mut self,
        topics: &[TopicFilter<'_>],
        properties: &[Property<'_>],
    ) -> (r: Result<Op, Error<IoErr>>)
    requires
        conn_inv(*old(self)),
    ensures
        !old(self).live ==> r == Err::<Op, Error<IoErr>>(Error::Disconnected) && final(self).io == old(self).io && *final(self).session == *old(self).session,
        final(self).live ==> old(self).live,
        r matches Err(e) ==> (e is Transport || e is Disconnected) ==> !final(self).live,
        (old(self).live && (topics@.len() == 0 || !props_valid(Properties { inner: PropertiesData::Slice(properties) }, PropertyContext::Subscribe))) ==>
            r == Err::<Op, Error<IoErr>>(Error::InvalidRequest) && final(self).io == old(self).io && *final(self).session == *old(self).session && final(self).live,
        r matches Err(e) ==> e is InvalidRequest ==>
            same_inflight(cs(*final(self)).data.outbound, cs(*old(self)).data.outbound) && final(self).live == old(self).live,
        ret_sig(cs(*final(self)).data.outbound.retained@) == ret_sig(cs(*old(self)).data.outbound.retained@)
            || (ret_sig(cs(*final(self)).data.outbound.retained@).len() == ret_sig(cs(*old(self)).data.outbound.retained@).len() + 1
                && ret_sig(cs(*final(self)).data.outbound.retained@).drop_last() == ret_sig(cs(*old(self)).data.outbound.retained@)),
        r matches Ok(op) ==> !too_large(cs(*final(self)).runtime.maximum_packet_size,
            cs(*final(self)).data.outbound.retained@[first_ret(cs(*final(self)).data.outbound.retained@, op.packet_id)].len),
        r matches Ok(op) ==> op.kind == OpKind::Subscribe && op.packet_id != 0 && op.generation == cs(*final(self)).data.generation && final(self).live
            && has_ret(cs(*final(self)).data.outbound.retained@, op.packet_id)
            && !in_use(cs(*old(self)).data.outbound, op.packet_id),
        cs(*final(self)).runtime.send_quota == cs(*old(self)).runtime.send_quota,
        sd_frame_gen(cs(*final(self)).data, cs(*old(self)).data),
        final(self).event == old(self).event && cfg_same(cs(*final(self)), cs(*old(self))),
        cs(*final(self)).data.pending_server_packet_ids@ == cs(*old(self)).data.pending_server_packet_ids@,
        conn_inv(*final(self)),
{
        if !self.live {
            return Err(Error::Disconnected);
        }
        if topics.is_empty() {
            return Err(Error::InvalidRequest);
        }
        if !Properties::from_slice(properties).valid_for(PropertyContext::Subscribe) {
            return Err(Error::InvalidRequest);
        }
        assert(conn_inv(*self));


        (match self.flush_outbound().await { Ok(__v) => __v, Err(__e) => return Err(From::from(__e)) });
        let ghost o1 = cs(*self).data.outbound;

        (match self.require_retained_slot() { Ok(__v) => __v, Err(__e) => return Err(From::from(__e)) });

        let packet_id = self.session.data.next_packet_id();
        let ghost o2 = cs(*self).data.outbound;

        let (offset, len) = (match self.session.data.outbound.encode_packet(&Subscribe {
            packet_id,
            dup: false,
            properties: Properties::from_slice(properties),
            topics,
        }) { Ok(__v) => __v, Err(__e) => return Err(From::from(__e)) });
        let ghost o3 = cs(*self).data.outbound;
        proof { lemma_inflight_entries(o3, o2); }

        (match self.session.runtime.require_packet_size(len) { Ok(__v) => __v, Err(__e) => return Err(From::from(__e)) });
        (match self.session
            .data
            .outbound
            .retain_packet(packet_id, offset, len) { Ok(__v) => __v, Err(__e) => return Err(From::from(__e)) });
        let ghost o4 = cs(*self).data.outbound;
        proof {
            lemma_retained_pushed(o4, o3, o2, packet_id, offset, len);
            lemma_sig_props(o2, cs(*old(self)).data.outbound, packet_id);
            assert(ret_sig(o4.retained@).drop_last() =~= ret_sig(o3.retained@));
            lemma_first_ret_bounds(o4.retained@, packet_id);
        }
        assert(conn_inv(*self));



        (match self.flush_outbound().await { Ok(__v) => __v, Err(__e) => return Err(From::from(__e)) });
        proof {
            lemma_sig_props(cs(*self).data.outbound, o4, packet_id);
            lemma_first_ret_bounds(o4.retained@, packet_id);
            lemma_len_of_new(o4, o3, packet_id, offset, len);
        }

        Ok(Op::new(
            OpKind::Subscribe,
            packet_id,
            self.session.data.generation(),
        ))
    }

#[verifier::spinoff_prover]
async fn unsubscribe(
        &mut self,
        topics: &[&str],
        properties: &[Property<'_>],
    ) -> (r: Result<Op, Error<IoErr>>)
    requires
        conn_inv(*old(self)),
    ensures
        !old(self).live ==> r == Err::<Op, Error<IoErr>>(Error::Disconnected) && final(self).io == old(self).io && *final(self).session == *old(self).session,
        final(self).live ==> old(self).live,
        r matches Err(e) ==> (e is Transport || e is Disconnected) ==> !final(self).live,
        (old(self).live && (topics@.len() == 0 || !props_valid(Properties { inner: PropertiesData::Slice(properties) }, PropertyContext::Unsubscribe))) ==>
            r == Err::<Op, Error<IoErr>>(Error::InvalidRequest) && final(self).io == old(self).io && *final(self).session == *old(self).session && final(self).live,
        r matches Err(e) ==> e is InvalidRequest ==>
            same_inflight(cs(*final(self)).data.outbound, cs(*old(self)).data.outbound) && final(self).live == old(self).live,
        ret_sig(cs(*final(self)).data.outbound.retained@) == ret_sig(cs(*old(self)).data.outbound.retained@)
            || (ret_sig(cs(*final(self)).data.outbound.retained@).len() == ret_sig(cs(*old(self)).data.outbound.retained@).len() + 1
                && ret_sig(cs(*final(self)).data.outbound.retained@).drop_last() == ret_sig(cs(*old(self)).data.outbound.retained@)),
        r matches Ok(op) ==> !too_large(cs(*final(self)).runtime.maximum_packet_size,
            cs(*final(self)).data.outbound.retained@[first_ret(cs(*final(self)).data.outbound.retained@, op.packet_id)].len),
        r matches Ok(op) ==> op.kind == OpKind::Unsubscribe && op.packet_id != 0 && op.generation == cs(*final(self)).data.generation && final(self).live
            && has_ret(cs(*final(self)).data.outbound.retained@, op.packet_id)
            && !in_use(cs(*old(self)).data.outbound, op.packet_id),
        cs(*final(self)).runtime.send_quota == cs(*old(self)).runtime.send_quota,
        sd_frame_gen(cs(*final(self)).data, cs(*old(self)).data),
        final(self).event == old(self).event && cfg_same(cs(*final(self)), cs(*old(self))),
        cs(*final(self)).data.pending_server_packet_ids@ == cs(*old(self)).data.pending_server_packet_ids@,
        conn_inv(*final(self)),
{
        if !self.live {
            return Err(Error::Disconnected);
        }
        if topics.is_empty() {
            return Err(Error::InvalidRequest);
        }
        if !Properties::from_slice(properties).valid_for(PropertyContext::Unsubscribe) {
            return Err(Error::InvalidRequest);
        }
        assert(conn_inv(*self));


        (match self.flush_outbound().await { Ok(__v) => __v, Err(__e) => return Err(From::from(__e)) });
        let ghost o1 = cs(*self).data.outbound;

        (match self.require_retained_slot() { Ok(__v) => __v, Err(__e) => return Err(From::from(__e)) });

        let packet_id = self.session.data.next_packet_id();
        let ghost o2 = cs(*self).data.outbound;

        let (offset, len) = (match self.session.data.outbound.encode_packet(&Unsubscribe {
            packet_id,
            dup: false,
            properties: Properties::from_slice(properties),
            topics,
        }) { Ok(__v) => __v, Err(__e) => return Err(From::from(__e)) });
        let ghost o3 = cs(*self).data.outbound;
        proof { lemma_inflight_entries(o3, o2); }

        (match self.session.runtime.require_packet_size(len) { Ok(__v) => __v, Err(__e) => return Err(From::from(__e)) });
        (match self.session
            .data
            .outbound
            .retain_packet(packet_id, offset, len) { Ok(__v) => __v, Err(__e) => return Err(From::from(__e)) });
        let ghost o4 = cs(*self).data.outbound;
        proof {
            lemma_retained_pushed(o4, o3, o2, packet_id, offset, len);
            lemma_sig_props(o2, cs(*old(self)).data.outbound, packet_id);
            assert(ret_sig(o4.retained@).drop_last() =~= ret_sig(o3.retained@));
            lemma_first_ret_bounds(o4.retained@, packet_id);
        }
        assert(conn_inv(*self));



        (match self.flush_outbound().await { Ok(__v) => __v, Err(__e) => return Err(From::from(__e)) });
        proof {
            lemma_sig_props(cs(*self).data.outbound, o4, packet_id);
            lemma_first_ret_bounds(o4.retained@, packet_id);
            lemma_len_of_new(o4, o3, packet_id, offset, len);
        }

        Ok(Op::new(
            OpKind::Unsubscribe,
            packet_id,
            self.session.data.generation(),
        ))
    }

#[verifier::spinoff_prover]
fn can_publish(&self, qos: QoS) -> (r: bool)
    requires
        conn_inv(*self),
    ensures
        r == (self.live && session_can_publish(cs(*self), qos)),
{
        self.live && self.session.can_publish(qos)
    }

#[verifier::spinoff_prover]
fn is_connected(&self) -> (r: bool)
    ensures
        r == self.live,
{
        self.live
    }

#[verifier::spinoff_prover]
#[verifier::rlimit(100)]
async fn publish<P>(
        &mut self,
        publication: Publication<'_, P>,
    ) -> (r: Result<Option<Op>, PubError<P::Error, IoErr>>)
where
        P: ToPayload,
    requires
        conn_inv(*old(self)),
    ensures
        !old(self).live ==> r == Err::<Option<Op>, PubError<P::Error, IoErr>>(PubError::Session(Error::Disconnected)) && final(self).io == old(self).io && *final(self).session == *old(self).session,
        final(self).live ==> old(self).live,
        r matches Err(PubError::Session(e)) ==> (e is Transport || e is Disconnected) ==> !final(self).live,
        (old(self).live && !props_valid(publication.properties, PropertyContext::Publish)) ==> r is Err,
        r matches Err(PubError::Session(e)) ==> (e is InvalidRequest || e is NotReady) ==>
            same_inflight(cs(*final(self)).data.outbound, cs(*old(self)).data.outbound)
            && cs(*final(self)).runtime.send_quota == cs(*old(self)).runtime.send_quota && final(self).live == old(self).live,
        r matches Err(PubError::Payload(_)) ==> same_inflight(cs(*final(self)).data.outbound, cs(*old(self)).data.outbound)
            && cs(*final(self)).runtime.send_quota == cs(*old(self)).runtime.send_quota && final(self).live == old(self).live,
        ret_sig(cs(*final(self)).data.outbound.retained@) == ret_sig(cs(*old(self)).data.outbound.retained@)
            || (ret_sig(cs(*final(self)).data.outbound.retained@).len() == ret_sig(cs(*old(self)).data.outbound.retained@).len() + 1
                && ret_sig(cs(*final(self)).data.outbound.retained@).drop_last() == ret_sig(cs(*old(self)).data.outbound.retained@)),
        rel_sig(cs(*final(self)).data.outbound.pending_release@) == rel_sig(cs(*old(self)).data.outbound.pending_release@),
        if ret_sig(cs(*final(self)).data.outbound.retained@) == ret_sig(cs(*old(self)).data.outbound.retained@)
            { cs(*final(self)).runtime.send_quota == cs(*old(self)).runtime.send_quota }
        else { cs(*old(self)).runtime.send_quota >= 1 && cs(*final(self)).runtime.send_quota == cs(*old(self)).runtime.send_quota - 1 },
        r matches Ok(None) ==> eff_qos(cs(*old(self)), publication.qos) == QoS::AtMostOnce && final(self).live
            && ret_sig(cs(*final(self)).data.outbound.retained@) == ret_sig(cs(*old(self)).data.outbound.retained@),
        r matches Ok(Some(op)) ==> eff_qos(cs(*old(self)), publication.qos) != QoS::AtMostOnce
            && op.kind == (if eff_qos(cs(*old(self)), publication.qos) == QoS::ExactlyOnce { OpKind::PublishExactlyOnce } else { OpKind::PublishAtLeastOnce })
            && op.packet_id != 0 && op.generation == cs(*final(self)).data.generation && final(self).live
            && has_ret(cs(*final(self)).data.outbound.retained@, op.packet_id)
            && !in_use(cs(*old(self)).data.outbound, op.packet_id)
            && ret_sig(cs(*final(self)).data.outbound.retained@) != ret_sig(cs(*old(self)).data.outbound.retained@),
        r matches Ok(Some(op)) ==> !too_large(cs(*final(self)).runtime.maximum_packet_size,
            cs(*final(self)).data.outbound.retained@[first_ret(cs(*final(self)).data.outbound.retained@, op.packet_id)].len),
        sd_frame_gen(cs(*final(self)).data, cs(*old(self)).data) && final(self).event == old(self).event && cfg_same(cs(*final(self)), cs(*old(self)))
            && cs(*final(self)).data.pending_server_packet_ids@ == cs(*old(self)).data.pending_server_packet_ids@,
        conn_inv(*final(self)),
{
        if !self.live {
            return Err(Error::Disconnected.into());
        }
        assert(conn_inv(*self));


        (match self.flush_outbound().await { Ok(__v) => __v, Err(__e) => return Err(From::from(__e)) });
        let ghost o1 = cs(*self).data.outbound;
        let ghost q1 = cs(*self).runtime.send_quota;

        let Publication {
            topic,
            properties,
            qos,
            payload,
            retain,
        } = publication;
        if !properties.valid_for(PropertyContext::Publish) {
            return Err(Error::InvalidRequest.into());
        }
        let qos = match self.session.runtime.max_qos {
            Some(max_qos) if self.session.downgrade_qos && qos > max_qos => max_qos,
            _ => qos,
        };
        let packet_id = (if qos > QoS::AtMostOnce { Some(self.session.data.next_packet_id()) } else { None });
        let header = PublishHeader {
            topic: Utf8String(topic),
            packet_id,
            properties,
            retain,
            qos,
            dup: false,
        };
        if packet_id.is_some() {
            (match self.require_retained_slot() { Ok(__v) => __v, Err(__e) => return Err(From::from(__e)) });
        }

        if !self.can_publish(qos) {
            return Err(Error::NotReady.into());
        }

        if let Some(packet_id) = packet_id {
            let (offset, len) = (match self
                .session
                .data
                .outbound
                .encode_publish(&header, payload) { Ok(__v) => __v, Err(__e) => return Err(From::from(__e)) });
            let ghost o3 = cs(*self).data.outbound;
            proof { lemma_inflight_entries(o3, o1); }

            (match self.session.runtime.require_packet_size(len) { Ok(__v) => __v, Err(__e) => return Err(From::from(__e)) });
            (match self.session
                .data
                .outbound
                .retain_packet(packet_id, offset, len) { Ok(__v) => __v, Err(__e) => return Err(From::from(__e)) });
            let ghost o4 = cs(*self).data.outbound;
            proof {
                lemma_retained_pushed(o4, o3, o1, packet_id, offset, len);
                lemma_sig_props(o1, cs(*old(self)).data.outbound, packet_id);
                assert(ret_sig(o4.retained@).drop_last() =~= ret_sig(o3.retained@));
                lemma_first_ret_bounds(o4.retained@, packet_id);
            }

            self.session.runtime.send_quota = self.session.runtime.send_quota.saturating_sub(1);
        assert(conn_inv(*self));



            (match self.flush_outbound().await { Ok(__v) => __v, Err(__e) => return Err(From::from(__e)) });
            let kind = if qos == QoS::ExactlyOnce {
                OpKind::PublishExactlyOnce
            } else {
                OpKind::PublishAtLeastOnce
            };
            proof {
                lemma_sig_props(cs(*self).data.outbound, o4, packet_id);
                lemma_first_ret_bounds(o4.retained@, packet_id);
                lemma_len_of_new(o4, o3, packet_id, offset, len);
            }

            return Ok(Some(Op::new(
                kind,
                packet_id,
                self.session.data.generation(),
            )));
        }

        let packet = (match MqttSerializer::encode_publish(
            self.session.data.outbound.scratch_space(),
            &header,
            payload,
        ) { Ok(__v) => __v, Err(__e) => return Err(From::from(__e)) });
        (match self.session.runtime.require_packet_size(packet.len()) { Ok(__v) => __v, Err(__e) => return Err(From::from(__e)) });

        if !self.live {
            return Err(Error::Disconnected.into());
        }
        if let Err(err) = write_all(&mut self.io, packet).await {
            if matches!(err, Error::WriteZero) {
                return Err(err.into());
            }

            self.handle_disconnect();
            return Err(err.into());
        }
        assert(conn_inv(*self));


        if let Err(err) = self.io.flush().await {

            self.handle_disconnect();
            return Err(Error::Transport(err).into());
        }
        self.session.runtime.note_outbound_activity(Instant::now());

        Ok(None)
    }

#[verifier::spinoff_prover]
#[verifier::rlimit(100)]
async fn publish__d8<P>(
        &mut self,
        publication: Publication<'_, P>,
    ) -> (r: Result<Option<Op>, PubError<P::Error, IoErr>>)
where
        P: ToPayload,
    requires
        conn_inv(*old(self)),
    ensures
        conn_inv(*final(self)),
{
        if !self.live {
            return Err(Error::Disconnected.into());
        }
        (match self.flush_outbound().await { Ok(__v) => __v, Err(__e) => return Err(From::from(__e)) });
        let ghost o1 = cs(*self).data.outbound;
        let ghost q1 = cs(*self).runtime.send_quota;

        let Publication {
            topic,
            properties,
            qos,
            payload,
            retain,
        } = publication;
        if !properties.valid_for(PropertyContext::Publish) {
            return Err(Error::InvalidRequest.into());
        }
        let qos = match self.session.runtime.max_qos {
            Some(max_qos) if self.session.downgrade_qos && qos > max_qos => max_qos,
            _ => qos,
        };
        let packet_id = (if qos > QoS::AtMostOnce { Some(self.session.data.next_packet_id()) } else { None });
        let header = PublishHeader {
            topic: Utf8String(topic),
            packet_id,
            properties,
            retain,
            qos,
            dup: false,
        };
        if packet_id.is_some() {
            (match self.require_retained_slot() { Ok(__v) => __v, Err(__e) => return Err(From::from(__e)) });
        }

        if !self.can_publish(qos) {
            return Err(Error::NotReady.into());
        }

        if let Some(packet_id) = packet_id {
            let (offset, len) = (match self
                .session
                .data
                .outbound
                .encode_publish(&header, payload) { Ok(__v) => __v, Err(__e) => return Err(From::from(__e)) });
            let ghost o3 = cs(*self).data.outbound;
            proof { lemma_inflight_entries(o3, o1); }

            (match self.session.runtime.require_packet_size(len) { Ok(__v) => __v, Err(__e) => return Err(From::from(__e)) });
            (match self.session
                .data
                .outbound
                .retain_packet(packet_id, offset, len) { Ok(__v) => __v, Err(__e) => return Err(From::from(__e)) });
            let ghost o4 = cs(*self).data.outbound;
            proof {
                lemma_retained_pushed(o4, o3, o1, packet_id, offset, len);
                lemma_sig_props(o1, cs(*old(self)).data.outbound, packet_id);
                assert(ret_sig(o4.retained@).drop_last() =~= ret_sig(o3.retained@));
                lemma_first_ret_bounds(o4.retained@, packet_id);
            }

            self.session.runtime.send_quota = self.session.runtime.send_quota.saturating_sub(1);

            (match self.flush_outbound().await { Ok(__v) => __v, Err(__e) => return Err(From::from(__e)) });
            let kind = if qos == QoS::ExactlyOnce {
                OpKind::PublishExactlyOnce
            } else {
                OpKind::PublishAtLeastOnce
            };
            proof {
                lemma_sig_props(cs(*self).data.outbound, o4, packet_id);
                lemma_first_ret_bounds(o4.retained@, packet_id);
                lemma_len_of_new(o4, o3, packet_id, offset, len);
            }

            return Ok(Some(Op::new(
                kind,
                packet_id,
                self.session.data.generation(),
            )));
        }

        let packet = (match MqttSerializer::encode_publish(
            self.session.data.outbound.scratch_space(),
            &header,
            payload,
        ) { Ok(__v) => __v, Err(__e) => return Err(From::from(__e)) });
        (match self.session.runtime.require_packet_size(packet.len()) { Ok(__v) => __v, Err(__e) => return Err(From::from(__e)) });

        if !self.live {
            return Err(Error::Disconnected.into());
        }
        let ghost w0 = self.io.wire@;

        if let Err(err) = write_all(&mut self.io, packet).await {
            if matches!(err, Error::WriteZero) {
                proof { assert(self.io.wire@ == w0 || !self.live); }

                return Err(err.into());
            }

            self.handle_disconnect();
            return Err(err.into());
        }
        if let Err(err) = self.io.flush().await {

            self.handle_disconnect();
            return Err(Error::Transport(err).into());
        }
        self.session.runtime.note_outbound_activity(Instant::now());

        Ok(None)
    }
}

} // verus!

// ======================================================================================
// 80_handshake: src/mqtt_client/session/handshake.rs — Session::connect / connect_handshake
// ======================================================================================
verus! {

pub struct Connect<'a> {
    pub keepalive: u16,
    pub properties: Properties<'a>,
    pub client_id: Utf8String<'a>,
    pub auth: Option<Auth<'a>>,
    pub will: Option<Will<'a>>,
    pub clean_start: bool,
}
/// value view of a CONNECT packet (what the encoder reads from the struct)
pub struct WillView { pub topic: Seq<char>, pub data: Seq<u8>, pub qos: QoS, pub retained: Retain, pub properties: Seq<Property<'static>> }
pub struct ConnectView {
    pub keepalive: u16, pub properties: Seq<Property<'static>>, pub client_id: Seq<char>,
    pub auth: Option<(Seq<char>, Seq<u8>)>, pub will: Option<WillView>, pub clean_start: bool,
}
pub open spec fn will_view(w: Will) -> WillView {
    WillView { topic: w.topic.text(), data: w.data@, qos: w.qos, retained: w.retained, properties: w.properties@ }
}
pub open spec fn props_seq(p: Properties) -> Seq<Property<'static>> {
    match p.inner { PropertiesData::Slice(s) => s@, _ => Seq::empty() }
}
pub open spec fn connect_view(c: Connect) -> ConnectView {
    ConnectView {
        keepalive: c.keepalive, properties: props_seq(c.properties), client_id: c.client_id.0@,
        auth: match c.auth { Some(a) => Some((a.user_name@, a.password@)), None => None },
        will: match c.will { Some(w) => Some(will_view(w)), None => None },
        clean_start: c.clean_start,
    }
}
pub uninterp spec fn enc_connect(v: ConnectView) -> Seq<u8>;
impl Encodable for Connect<'_> {
    open spec fn enc(&self) -> Seq<u8> { enc_connect(connect_view(*self)) }
    open spec fn encodable(&self) -> bool { true }
}
/// C05/C09 (Appendix A.7): the CONNECT this session sends
pub open spec fn connect_spec(s: Session) -> ConnectView {
    ConnectView {
        keepalive: (s.runtime.keepalive_interval.ticks() / 1_000_000) as u16,
        properties: seq![
            Property::MaximumPacketSize(rbuf(s.packet_reader).len() as u32),
            Property::SessionExpiryInterval(s.session_expiry_interval),
            Property::ReceiveMaximum(MAX_INBOUND_QOS2 as u16),
        ],
        client_id: s.client_id.text(),
        auth: match s.auth { Some(a) => Some((a.user_name@, a.password@)), None => None },
        will: match s.will { Some(w) => Some(will_view(w)), None => None },
        clean_start: !s.data.session_present,
    }
}

/// the property block of a CONNACK as the lazy iterator yields it (decoder leaf, bounded Kani check)
pub uninterp spec fn props_items(p: Properties) -> Seq<Result<Property<'static>, PeerError>>;

pub struct PropertiesIter<'a> { pub p: Properties<'a>, pub idx: Ghost<int> }
impl<'a> Properties<'a> {
    #[verifier::external_body]
    pub fn iter(&'a self) -> (r: PropertiesIter<'a>)
        ensures r.p == *self, r.idx@ == 0
    { unimplemented!() }
}
impl<'a> PropertiesIter<'a> {
    #[verifier::external_body]
    pub fn next(&mut self) -> (r: Option<Result<Property<'a>, PeerError>>)
        requires 0 <= old(self).idx@ <= props_items(old(self).p).len()
        ensures final(self).p == old(self).p,
            old(self).idx@ < props_items(old(self).p).len() ==> r == Some(props_items(old(self).p)[old(self).idx@]) && final(self).idx@ == old(self).idx@ + 1,
            old(self).idx@ >= props_items(old(self).p).len() ==> r is None && final(self).idx@ == old(self).idx@,
            r matches Some(Err(e)) ==> e == PeerError::InvalidPacket,
    { unimplemented!() }
}

pub struct QosTryFromError;
impl TryFrom<u8> for QoS {
    type Error = QosTryFromError;
    #[verifier::external_body]
    fn try_from(b: u8) -> (r: Result<QoS, QosTryFromError>) { unimplemented!() }
}
impl vstd::std_specs::convert::TryFromSpecImpl<u8> for QoS {
    open spec fn obeys_try_from_spec() -> bool { true }
    open spec fn try_from_spec(b: u8) -> Result<Self, QosTryFromError> {
        if b == 0 { Ok(QoS::AtMostOnce) } else if b == 1 { Ok(QoS::AtLeastOnce) } else if b == 2 { Ok(QoS::ExactlyOnce) } else { Err(QosTryFromError) }
    }
}

/// C06: QoS 1/2 PUBLISH packets still unresolved: retained PUBLISH entries plus exchanges awaiting PUBCOMP
pub open spec fn publish_count(o: Outbound) -> int {
    o.pending_release@.len() + count_publish(bv(o), o.retained@, o.retained@.len() as int)
}
pub open spec fn count_publish(buf: Seq<u8>, r: Seq<RetainedPacket>, n: int) -> int decreases n {
    if n <= 0 { 0 } else { count_publish(buf, r, n - 1) + (if (buf[r[n - 1].offset as int] >> 4u8) == 3u8 { 1int } else { 0int }) }
}

/// after arm_replay nothing is half-way on the wire: every entry is fresh
pub proof fn lemma_armed_idle(o1: Outbound, o0: Outbound)
    requires armed(o1, o0)
    ensures no_in_progress(o1)
{
    assert forall|j: int| 0 <= j < o1.pending_control@.len() implies !prio((#[trigger] o1.pending_control@[j]).state, true) by {
        assert(o1.pending_control@[j] == fresh_ctl(o0.pending_control@[j]));
    }
    assert forall|j: int| 0 <= j < o1.pending_release@.len() implies !prio((#[trigger] o1.pending_release@[j]).state, true) by {
        assert(o1.pending_release@[j] == fresh_rel(o0.pending_release@[j]));
    }
    assert forall|j: int| 0 <= j < o1.retained@.len() implies !prio((#[trigger] o1.retained@[j]).state, true) by {
        assert(o1.retained@[j] == fresh_ret(o0.retained@[j]));
    }
    lemma_ctl_idx_none(o1.pending_control@, true); lemma_rel_idx_none(o1.pending_release@, true); lemma_ret_idx_none(o1.retained@, true);
}

impl<'buf> Session<'buf> {
#[verifier::spinoff_prover]
#[verifier::exec_allows_no_decreases_clause]
#[verifier::rlimit(100)]
async fn connect_handshake(
        &mut self,
        connection: &mut VIo,
    ) -> (r: Result<ConnectEvent, Error<IoErr>>)
    requires
        sess_inv(*old(self)) && no_in_progress(old(self).data.outbound),
    ensures
        sess_inv(*final(self)),
        final(connection).wire@ == old(connection).wire@ || wire_ext(old(connection).wire@, final(connection).wire@, enc_connect(connect_spec(*old(self))), 0),
        r is Ok ==> final(connection).wire@ == old(connection).wire@ + enc_connect(connect_spec(*old(self))),
        r matches Ok(ev) ==> final(self).data.session_present && final(self).runtime.session_resumed == (ev == ConnectEvent::Reconnected),
        r == Ok::<ConnectEvent, Error<IoErr>>(ConnectEvent::Connected) ==>
            final(self).data.outbound.retained@.len() == 0 && final(self).data.outbound.pending_control@.len() == 0
            && final(self).data.outbound.pending_release@.len() == 0 && final(self).data.pending_server_packet_ids@.len() == 0
            && final(self).data.generation == (if old(self).data.generation == u32::MAX { 0 } else { (old(self).data.generation + 1) as u32 })
            && final(self).data.packet_id.v == 1,
        r == Ok::<ConnectEvent, Error<IoErr>>(ConnectEvent::Reconnected) ==>
            same_entries(bv(final(self).data.outbound), final(self).data.outbound.retained@, bv(old(self).data.outbound), old(self).data.outbound.retained@)
            && same_queues(final(self).data.outbound, old(self).data.outbound) && final(self).data.generation == old(self).data.generation
            && final(self).data.pending_server_packet_ids@ == old(self).data.pending_server_packet_ids@,
        r is Ok ==> 1 <= final(self).runtime.max_send_quota <= 8 && final(self).runtime.send_quota == final(self).runtime.max_send_quota,
        r is Ok ==> final(self).runtime.ping_timeout is None,
        r is Ok ==> exists|now: Instant| final(self).runtime.next_ping == #[trigger] ping_deadline(final(self).runtime.keepalive_interval, now),
        r matches Err(e) ==> (e is Transport || e is Disconnected || (e matches Error::Peer(PeerError::Rejected(_)))) ==>
            final(self).data.generation == old(self).data.generation && final(self).data.session_present == old(self).data.session_present
            && same_inflight(final(self).data.outbound, old(self).data.outbound)
            && final(self).data.pending_server_packet_ids@ == old(self).data.pending_server_packet_ids@,
        r is Err ==> final(self).data.generation == old(self).data.generation || !final(self).data.session_present,
        final(self).downgrade_qos == old(self).downgrade_qos && final(self).session_expiry_interval == old(self).session_expiry_interval
            && final(self).will == old(self).will && final(self).auth == old(self).auth,
{
        let client_id = self.client_id.clone();
        let properties = [
            Property::MaximumPacketSize(self.packet_reader.buffer.len() as u32),
            Property::SessionExpiryInterval(self.session_expiry_interval),
            Property::ReceiveMaximum(self.data.pending_server_packet_ids.capacity() as u16),
        ];
        let will = self.will.clone();
        let keepalive = self.runtime.keepalive_interval.as_secs() as u16;
        let clean_start = !self.data.session_present;
        let auth = self.auth;

        {
            let buffer = self.data.outbound.scratch_space();
            (match write_packet(
                buffer,
                connection,
                &Connect {
                    keepalive,
                    properties: Properties::from_slice(&properties),
                    client_id: Utf8String(client_id.as_str()),
                    auth,
                    will,
                    clean_start,
                },
            )
            .await { Ok(__v) => __v, Err(__e) => return Err(From::from(__e)) });
        }

        self.runtime.next_ping = None;
        self.runtime.ping_timeout = None;

        if let Err(err) = fill_packet_reader(&mut self.packet_reader, connection).await {
            match &err {
                Error::Transport(err) => (),
                Error::Disconnected => (),
                _ => {}
            }
            self.handle_disconnect();
            return Err(err);
        }

        let packet = match self.packet_reader.received_packet() {
            Ok(packet) => packet,
            Err(err) => {

                self.handle_disconnect();
                return Err(err.into());
            }
        };
        let ack = match packet {
            ReceivedPacket::ConnAck(ack) => ack,
            ReceivedPacket::Disconnect(disconnect) => {

                self.handle_disconnect();
                return Err(Error::Disconnected);
            }
            _ => {
                self.handle_disconnect();
                return Err(Error::Peer(PeerError::InvalidPacket));
            }
        };

        if let Err(err) = ack.reason_code.as_result() {

            return Err(Error::Peer(err));
        }

        let resumed = ack.session_present;
        if !resumed {

            self.data.reset();
        }

        let local_quota = self.data.outbound.max_inflight();
        let mut send_quota = local_quota;
        let mut max_send_quota = local_quota;
        let mut max_qos = None;
        let mut maximum_packet_size = None;
        let mut keepalive_interval = self.runtime.keepalive_interval;
        let mut assigned_client_id: Option<String<64>> = None;

        let mut property_result = Ok(()); 'iife1: loop 
            invariant
                1 <= max_send_quota <= 8, send_quota == max_send_quota, local_quota == 8,
                keepalive_interval.ticks() <= 65535 * 1_000_000,
                property_result matches Err(e) ==> e == PeerError::InvalidPacket,
{
            let mut __it1 = ack.properties.iter(); loop 
            invariant
                0 <= __it1.idx@ <= props_items(__it1.p).len(),
                1 <= max_send_quota <= 8, send_quota == max_send_quota, local_quota == 8,
                keepalive_interval.ticks() <= 65535 * 1_000_000,
                property_result matches Err(e) ==> e == PeerError::InvalidPacket,
{ let property = match __it1.next() { Some(__v) => __v, None => break };
                match (match property { Ok(__v) => __v, Err(__e) => { property_result = Err(From::from(__e)); break 'iife1; } }) {
                    Property::MaximumPacketSize(size) => maximum_packet_size = Some(size),
                    Property::AssignedClientIdentifier(id) => {
                        assigned_client_id =
                            Some((match (match id.try_into() { Ok(__v) => Ok(__v), Err(_) => Err(PeerError::InvalidPacket) }) { Ok(__v) => __v, Err(__e) => { property_result = Err(From::from(__e)); break 'iife1; } }));
                    }
                    Property::ServerKeepAlive(keepalive) => {
                        keepalive_interval = Duration::from_secs(keepalive as u64);
                    }
                    Property::ReceiveMaximum(max) => {
                        if max == 0 {
                            { property_result = Err(PeerError::InvalidPacket); break 'iife1; }
                        }
                        send_quota = max.min(local_quota);
                        max_send_quota = max.min(local_quota);
                    }
                    Property::MaximumQoS(max) => {
                        max_qos = Some((match (match QoS::try_from(max) { Ok(__v) => Ok(__v), Err(_) => Err(PeerError::InvalidPacket) }) { Ok(__v) => __v, Err(__e) => { property_result = Err(From::from(__e)); break 'iife1; } }));
                    }
                    _ => {}
                }
            }
             break; }
        if let Err(err) = property_result {
            self.handle_disconnect();
            return Err(Error::Peer(err));
        }

        self.runtime.session_resumed = resumed;
        self.runtime.keepalive_interval = keepalive_interval;
        self.runtime.send_quota = send_quota;
        self.runtime.max_send_quota = max_send_quota;
        self.runtime.max_qos = max_qos;
        self.runtime.maximum_packet_size = maximum_packet_size;
        if let Some(assigned_client_id) = assigned_client_id {
            self.client_id = assigned_client_id;
        }

        self.data.mark_session_present();
        self.runtime.note_outbound_activity(Instant::now());
        self.runtime.ping_timeout = None;
        if resumed {

            Ok(ConnectEvent::Reconnected)
        } else {

            Ok(ConnectEvent::Connected)
        }
    }

#[verifier::spinoff_prover]
#[verifier::exec_allows_no_decreases_clause]
#[verifier::rlimit(100)]
async fn connect_handshake__d9(
        &mut self,
        connection: &mut VIo,
    ) -> (r: Result<ConnectEvent, Error<IoErr>>)
    requires
        sess_inv(*old(self)) && no_in_progress(old(self).data.outbound),
    ensures
        sess_inv(*final(self)),
        !(r matches Err(Error::Resource(ResourceError::BufferTooSmall))),
{
        let client_id = self.client_id.clone();
        let properties = [
            Property::MaximumPacketSize(self.packet_reader.buffer.len() as u32),
            Property::SessionExpiryInterval(self.session_expiry_interval),
            Property::ReceiveMaximum(self.data.pending_server_packet_ids.capacity() as u16),
        ];
        let will = self.will.clone();
        let keepalive = self.runtime.keepalive_interval.as_secs() as u16;
        let clean_start = !self.data.session_present;
        let auth = self.auth;

        {
            let buffer = self.data.outbound.scratch_space();
            (match write_packet(
                buffer,
                connection,
                &Connect {
                    keepalive,
                    properties: Properties::from_slice(&properties),
                    client_id: Utf8String(client_id.as_str()),
                    auth,
                    will,
                    clean_start,
                },
            )
            .await { Ok(__v) => __v, Err(__e) => return Err(From::from(__e)) });
        }

        self.runtime.next_ping = None;
        self.runtime.ping_timeout = None;

        if let Err(err) = fill_packet_reader(&mut self.packet_reader, connection).await {
            match &err {
                Error::Transport(err) => (),
                Error::Disconnected => (),
                _ => {}
            }
            self.handle_disconnect();
            return Err(err);
        }

        let packet = match self.packet_reader.received_packet() {
            Ok(packet) => packet,
            Err(err) => {

                self.handle_disconnect();
                return Err(err.into());
            }
        };
        let ack = match packet {
            ReceivedPacket::ConnAck(ack) => ack,
            ReceivedPacket::Disconnect(disconnect) => {

                self.handle_disconnect();
                return Err(Error::Disconnected);
            }
            _ => {
                self.handle_disconnect();
                return Err(Error::Peer(PeerError::InvalidPacket));
            }
        };

        if let Err(err) = ack.reason_code.as_result() {

            return Err(Error::Peer(err));
        }

        let resumed = ack.session_present;
        if !resumed {

            self.data.reset();
        }

        let local_quota = self.data.outbound.max_inflight();
        let mut send_quota = local_quota;
        let mut max_send_quota = local_quota;
        let mut max_qos = None;
        let mut maximum_packet_size = None;
        let mut keepalive_interval = self.runtime.keepalive_interval;
        let mut assigned_client_id: Option<String<64>> = None;

        let mut property_result = Ok(()); 'iife1: loop 
            invariant
                1 <= max_send_quota <= 8, send_quota == max_send_quota, local_quota == 8,
                keepalive_interval.ticks() <= 65535 * 1_000_000,
                property_result matches Err(e) ==> e == PeerError::InvalidPacket,
{
            let mut __it1 = ack.properties.iter(); loop 
            invariant
                0 <= __it1.idx@ <= props_items(__it1.p).len(),
                1 <= max_send_quota <= 8, send_quota == max_send_quota, local_quota == 8,
                keepalive_interval.ticks() <= 65535 * 1_000_000,
                property_result matches Err(e) ==> e == PeerError::InvalidPacket,
{ let property = match __it1.next() { Some(__v) => __v, None => break };
                match (match property { Ok(__v) => __v, Err(__e) => { property_result = Err(From::from(__e)); break 'iife1; } }) {
                    Property::MaximumPacketSize(size) => maximum_packet_size = Some(size),
                    Property::AssignedClientIdentifier(id) => {
                        assigned_client_id =
                            Some((match (match id.try_into() { Ok(__v) => Ok(__v), Err(_) => Err(PeerError::InvalidPacket) }) { Ok(__v) => __v, Err(__e) => { property_result = Err(From::from(__e)); break 'iife1; } }));
                    }
                    Property::ServerKeepAlive(keepalive) => {
                        keepalive_interval = Duration::from_secs(keepalive as u64);
                    }
                    Property::ReceiveMaximum(max) => {
                        if max == 0 {
                            { property_result = Err(PeerError::InvalidPacket); break 'iife1; }
                        }
                        send_quota = max.min(local_quota);
                        max_send_quota = max.min(local_quota);
                    }
                    Property::MaximumQoS(max) => {
                        max_qos = Some((match (match QoS::try_from(max) { Ok(__v) => Ok(__v), Err(_) => Err(PeerError::InvalidPacket) }) { Ok(__v) => __v, Err(__e) => { property_result = Err(From::from(__e)); break 'iife1; } }));
                    }
                    _ => {}
                }
            }
             break; }
        if let Err(err) = property_result {
            self.handle_disconnect();
            return Err(Error::Peer(err));
        }

        self.runtime.session_resumed = resumed;
        self.runtime.keepalive_interval = keepalive_interval;
        self.runtime.send_quota = send_quota;
        self.runtime.max_send_quota = max_send_quota;
        self.runtime.max_qos = max_qos;
        self.runtime.maximum_packet_size = maximum_packet_size;
        if let Some(assigned_client_id) = assigned_client_id {
            self.client_id = assigned_client_id;
        }

        self.data.mark_session_present();
        self.runtime.note_outbound_activity(Instant::now());
        self.runtime.ping_timeout = None;
        if resumed {

            Ok(ConnectEvent::Reconnected)
        } else {

            Ok(ConnectEvent::Connected)
        }
    }

#[verifier::spinoff_prover]
#[verifier::exec_allows_no_decreases_clause]
#[verifier::rlimit(100)]
async fn connect_handshake__d5b(
        &mut self,
        connection: &mut VIo,
    ) -> (r: Result<ConnectEvent, Error<IoErr>>)
    requires
        sess_inv(*old(self)) && no_in_progress(old(self).data.outbound),
    ensures
        sess_inv(*final(self)),
        r == Ok::<ConnectEvent, Error<IoErr>>(ConnectEvent::Reconnected) ==> final(self).runtime.send_quota + publish_count(final(self).data.outbound) <= final(self).runtime.max_send_quota,
{
        let client_id = self.client_id.clone();
        let properties = [
            Property::MaximumPacketSize(self.packet_reader.buffer.len() as u32),
            Property::SessionExpiryInterval(self.session_expiry_interval),
            Property::ReceiveMaximum(self.data.pending_server_packet_ids.capacity() as u16),
        ];
        let will = self.will.clone();
        let keepalive = self.runtime.keepalive_interval.as_secs() as u16;
        let clean_start = !self.data.session_present;
        let auth = self.auth;

        {
            let buffer = self.data.outbound.scratch_space();
            (match write_packet(
                buffer,
                connection,
                &Connect {
                    keepalive,
                    properties: Properties::from_slice(&properties),
                    client_id: Utf8String(client_id.as_str()),
                    auth,
                    will,
                    clean_start,
                },
            )
            .await { Ok(__v) => __v, Err(__e) => return Err(From::from(__e)) });
        }

        self.runtime.next_ping = None;
        self.runtime.ping_timeout = None;

        if let Err(err) = fill_packet_reader(&mut self.packet_reader, connection).await {
            match &err {
                Error::Transport(err) => (),
                Error::Disconnected => (),
                _ => {}
            }
            self.handle_disconnect();
            return Err(err);
        }

        let packet = match self.packet_reader.received_packet() {
            Ok(packet) => packet,
            Err(err) => {

                self.handle_disconnect();
                return Err(err.into());
            }
        };
        let ack = match packet {
            ReceivedPacket::ConnAck(ack) => ack,
            ReceivedPacket::Disconnect(disconnect) => {

                self.handle_disconnect();
                return Err(Error::Disconnected);
            }
            _ => {
                self.handle_disconnect();
                return Err(Error::Peer(PeerError::InvalidPacket));
            }
        };

        if let Err(err) = ack.reason_code.as_result() {

            return Err(Error::Peer(err));
        }

        let resumed = ack.session_present;
        if !resumed {

            self.data.reset();
        }

        let local_quota = self.data.outbound.max_inflight();
        let mut send_quota = local_quota;
        let mut max_send_quota = local_quota;
        let mut max_qos = None;
        let mut maximum_packet_size = None;
        let mut keepalive_interval = self.runtime.keepalive_interval;
        let mut assigned_client_id: Option<String<64>> = None;

        let mut property_result = Ok(()); 'iife1: loop 
            invariant
                1 <= max_send_quota <= 8, send_quota == max_send_quota, local_quota == 8,
                keepalive_interval.ticks() <= 65535 * 1_000_000,
                property_result matches Err(e) ==> e == PeerError::InvalidPacket,
{
            let mut __it1 = ack.properties.iter(); loop 
            invariant
                0 <= __it1.idx@ <= props_items(__it1.p).len(),
                1 <= max_send_quota <= 8, send_quota == max_send_quota, local_quota == 8,
                keepalive_interval.ticks() <= 65535 * 1_000_000,
                property_result matches Err(e) ==> e == PeerError::InvalidPacket,
{ let property = match __it1.next() { Some(__v) => __v, None => break };
                match (match property { Ok(__v) => __v, Err(__e) => { property_result = Err(From::from(__e)); break 'iife1; } }) {
                    Property::MaximumPacketSize(size) => maximum_packet_size = Some(size),
                    Property::AssignedClientIdentifier(id) => {
                        assigned_client_id =
                            Some((match (match id.try_into() { Ok(__v) => Ok(__v), Err(_) => Err(PeerError::InvalidPacket) }) { Ok(__v) => __v, Err(__e) => { property_result = Err(From::from(__e)); break 'iife1; } }));
                    }
                    Property::ServerKeepAlive(keepalive) => {
                        keepalive_interval = Duration::from_secs(keepalive as u64);
                    }
                    Property::ReceiveMaximum(max) => {
                        if max == 0 {
                            { property_result = Err(PeerError::InvalidPacket); break 'iife1; }
                        }
                        send_quota = max.min(local_quota);
                        max_send_quota = max.min(local_quota);
                    }
                    Property::MaximumQoS(max) => {
                        max_qos = Some((match (match QoS::try_from(max) { Ok(__v) => Ok(__v), Err(_) => Err(PeerError::InvalidPacket) }) { Ok(__v) => __v, Err(__e) => { property_result = Err(From::from(__e)); break 'iife1; } }));
                    }
                    _ => {}
                }
            }
             break; }
        if let Err(err) = property_result {
            self.handle_disconnect();
            return Err(Error::Peer(err));
        }

        self.runtime.session_resumed = resumed;
        self.runtime.keepalive_interval = keepalive_interval;
        self.runtime.send_quota = send_quota;
        self.runtime.max_send_quota = max_send_quota;
        self.runtime.max_qos = max_qos;
        self.runtime.maximum_packet_size = maximum_packet_size;
        if let Some(assigned_client_id) = assigned_client_id {
            self.client_id = assigned_client_id;
        }

        self.data.mark_session_present();
        self.runtime.note_outbound_activity(Instant::now());
        self.runtime.ping_timeout = None;
        if resumed {

            Ok(ConnectEvent::Reconnected)
        } else {

            Ok(ConnectEvent::Connected)
        }
    }

#[verifier::spinoff_prover]
async fn connect(
        &mut self,
        io__0: VIo,
    ) -> (r: Result<Connection<'_, 'buf>, Error<IoErr>>)
    requires
        sd_inv(old(self).data) && rt_ok(old(self).runtime) && rbuf(old(self).packet_reader).len() <= usize::MAX,
    ensures
        r matches Ok(c) ==> c.live && conn_inv(c)
            && c.io.wire@.len() >= io__0.wire@.len()
            && c.io.wire@.subrange(0, io__0.wire@.len() as int) =~= io__0.wire@,
        r matches Ok(c) ==> exists|armed_state: Session| armed(armed_state.data.outbound, old(self).data.outbound)
            && armed_state.data.session_present == old(self).data.session_present && cfg_same(armed_state, *old(self))
            && armed_state.runtime.keepalive_interval == old(self).runtime.keepalive_interval
            && rbuf(armed_state.packet_reader) == rbuf(old(self).packet_reader)
            && #[trigger] enc_connect(connect_spec(armed_state)) =~= c.io.wire@.subrange(io__0.wire@.len() as int, c.io.wire@.len() as int),
        r is Err ==> sess_inv(*final(self)),
{ let mut io = io__0;

        self.packet_reader.reset();
        self.runtime.reset_transport();
        self.data.outbound.arm_replay();
        proof {
            lemma_armed_w6(self.data.outbound, old(self).data.outbound);
            lemma_armed_idle(self.data.outbound, old(self).data.outbound);
        }
        let ghost s1 = *self;

        let event = (match self.connect_handshake(&mut io).await { Ok(__v) => __v, Err(__e) => return Err(From::from(__e)) });
        Ok(Connection {
            session: self,
            io,
            event,
            live: true,
        })
    }
}

} // verus!

// ======================================================================================
// 90_reply: reply helpers — src/publication.rs, src/properties.rs (builders), src/mqtt_client/mod.rs
// ======================================================================================
verus! {

#[derive(Copy, Clone)]
pub struct ResponseTarget<'a> {
    pub topic: &'a str,
    pub correlation_data: Option<&'a [u8]>,
}

/// leaf (Kani: kani/reply.rs, bounded): first Response Topic / Correlation Data property of the block
pub uninterp spec fn props_response_topic(p: Properties) -> Option<&'static str>;
pub uninterp spec fn props_correlation(p: Properties) -> Option<&'static [u8]>;
impl<'a> Properties<'a> {
    #[verifier::external_body]
    pub fn response_topic(&'a self) -> (r: Option<&'a str>) ensures r == props_response_topic(*self) { unimplemented!() }
    #[verifier::external_body]
    pub fn correlation_data(&'a self) -> (r: Option<&'a [u8]>) ensures r == props_correlation(*self) { unimplemented!() }

#[verifier::spinoff_prover]
fn with_properties(self, properties: &'a [Property<'a>]) -> (r: Self)
    ensures
        r.inner == (match self.inner {
            PropertiesData::WithCorrelation { correlation, properties: _p } => PropertiesData::WithCorrelation { correlation, properties },
            _ => PropertiesData::Slice(properties),
        }),
{
        match self.inner {
            PropertiesData::WithCorrelation { correlation, .. } => Self {
                inner: PropertiesData::WithCorrelation {
                    correlation,
                    properties,
                },
            },
            PropertiesData::Slice(_) | PropertiesData::Encoded(_) => Self::from_slice(properties),
        }
    }
#[verifier::spinoff_prover]
fn with_correlation(self, data: &'a [u8]) -> (r: Self)
    ensures
        r.inner matches PropertiesData::WithCorrelation { correlation, properties: p } && correlation == Property::CorrelationData(data),
        r.inner matches PropertiesData::WithCorrelation { correlation, properties: p } && (match self.inner {
            PropertiesData::Slice(q) => p == q,
            PropertiesData::WithCorrelation { correlation: _c, properties: q } => p == q,
            PropertiesData::Encoded(_) => p@.len() == 0,
        }),
{
        let correlation = Property::CorrelationData(data);
        match self.inner {
            PropertiesData::Slice(properties)
            | PropertiesData::WithCorrelation { properties, .. } => Self {
                inner: PropertiesData::WithCorrelation {
                    correlation,
                    properties,
                },
            },
            PropertiesData::Encoded(_) => Self {
                inner: PropertiesData::WithCorrelation {
                    correlation,
                    properties: &[],
                },
            },
        }
    }
}

impl<'a, P> Publication<'a, P> {
#[verifier::spinoff_prover]
fn new(topic: &'a str, payload: P) -> (r: Self)
    ensures
        r.topic == topic && r.payload == payload && r.qos == QoS::AtMostOnce && r.retain == Retain::NotRetained
            && (r.properties.inner matches PropertiesData::Slice(s) && s@.len() == 0),
{
        Self {
            payload,
            qos: QoS::AtMostOnce,
            topic,
            properties: Properties::from_slice(&[]),
            retain: Retain::NotRetained,
        }
    }
#[verifier::spinoff_prover]
fn qos(self, qos: QoS) -> (r: Self)
    ensures
        r.qos == qos && r.topic == self.topic && r.payload == self.payload && r.retain == self.retain && r.properties == self.properties,
{ let mut self__m = self;
        self__m.qos = qos;
        self__m
    }
#[verifier::spinoff_prover]
fn retain(self) -> (r: Self)
    ensures
        r.retain == Retain::Retained && r.topic == self.topic && r.payload == self.payload && r.qos == self.qos && r.properties == self.properties,
{ let mut self__m = self;
        self__m.retain = Retain::Retained;
        self__m
    }
#[verifier::spinoff_prover]
fn properties(self, properties: &'a [Property<'a>]) -> (r: Self)
    ensures
        r.topic == self.topic && r.payload == self.payload && r.qos == self.qos && r.retain == self.retain
            && r.properties.inner == (match self.properties.inner {
                PropertiesData::WithCorrelation { correlation, properties: _p } => PropertiesData::WithCorrelation { correlation, properties },
                _ => PropertiesData::Slice(properties),
            }),
{ let mut self__m = self;
        self__m.properties = self__m.properties.with_properties(properties);
        self__m
    }
#[verifier::spinoff_prover]
fn correlate(self, data: &'a [u8]) -> (r: Self)
    ensures
        r.topic == self.topic && r.payload == self.payload && r.qos == self.qos && r.retain == self.retain
            && (r.properties.inner matches PropertiesData::WithCorrelation { correlation, properties: p } && correlation == Property::CorrelationData(data)),
        r.properties.inner matches PropertiesData::WithCorrelation { correlation, properties: p } && (match self.properties.inner {
            PropertiesData::Slice(q) => p == q,
            PropertiesData::WithCorrelation { correlation: _c, properties: q } => p == q,
            PropertiesData::Encoded(_) => p@.len() == 0,
        }),
{ let mut self__m = self;
        self__m.properties = self__m.properties.with_correlation(data);
        self__m
    }
}

impl<'a> ResponseTarget<'a> {
#[verifier::spinoff_prover]
fn publication<P>(self, payload: P) -> (r: Publication<'a, P>)
    ensures
        r.topic == self.topic && r.payload == payload && r.qos == QoS::AtMostOnce && r.retain == Retain::NotRetained,
        match self.correlation_data {
            Some(d) => r.properties.inner matches PropertiesData::WithCorrelation { correlation, properties: p } && correlation == Property::CorrelationData(d) && p@.len() == 0,
            None => r.properties.inner matches PropertiesData::Slice(s) && s@.len() == 0,
        },
{
        let mut publication = Publication::new(self.topic, payload);
        if let Some(data) = self.correlation_data {
            publication = publication.correlate(data);
        }
        publication
    }
}

impl<'a> InboundPublish<'a> {
#[verifier::spinoff_prover]
fn topic(&self) -> (r: &'a str)
    ensures
        r == self.topic,
{
        self.topic
    }
#[verifier::spinoff_prover]
fn payload(&self) -> (r: &'a [u8])
    ensures
        r == self.payload,
{
        self.payload
    }
#[verifier::spinoff_prover]
fn retained(&self) -> (r: bool)
    ensures
        r == (self.retain == Retain::Retained),
{
        matches!(self.retain, Retain::Retained)
    }
#[verifier::spinoff_prover]
fn qos(&self) -> (r: QoS)
    ensures
        r == self.qos,
{
        self.qos
    }
#[verifier::spinoff_prover]
fn response_topic(&'a self) -> (r: Option<&'a str>)
    ensures
        r == props_response_topic(self.properties),
{
        self.properties.response_topic()
    }
#[verifier::spinoff_prover]
fn correlation_data(&'a self) -> (r: Option<&'a [u8]>)
    ensures
        r == props_correlation(self.properties),
{
        self.properties.correlation_data()
    }
#[verifier::spinoff_prover]
fn response_target(&'a self) -> (r: Option<ResponseTarget<'a>>)
    ensures
        r == (match props_response_topic(self.properties) {
            Some(t) => Some(ResponseTarget { topic: t, correlation_data: props_correlation(self.properties) }),
            None => None::<ResponseTarget>,
        }),
{
        Some(ResponseTarget {
            topic: self.response_topic()?,
            correlation_data: self.correlation_data(),
        })
    }
#[verifier::spinoff_prover]
fn reply<P>(&'a self, payload: P) -> (r: Option<Publication<'a, P>>)
    ensures
        props_response_topic(self.properties) is None ==> r is None,
        props_response_topic(self.properties) matches Some(t) ==> (r matches Some(p) && p.topic == t && p.payload == payload
            && (match props_correlation(self.properties) {
                Some(d) => p.properties.inner matches PropertiesData::WithCorrelation { correlation, properties: q } && correlation == Property::CorrelationData(d) && q@.len() == 0,
                None => p.properties.inner matches PropertiesData::Slice(s) && s@.len() == 0,
            })),
{
        (match self.response_target() { Some(target) => Some(target.publication(payload)), None => None })
    }
}

} // verus!


fn main() {}
