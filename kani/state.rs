//! Pairing harnesses for `SessionData::next_packet_id` (src/mqtt_client/session/state.rs), child module
//! of that file.  C07: the identifier handed out is non-zero and not in use by any retained packet or
//! pending PUBREL, and the call terminates (unwinding assertion).
//! BOUNDED (both): see kani/harnesses.json.  The unbounded proof (pigeonhole over 16 slots) is the Verus
//! one; these decide the function when it was restructured so that the Verus loop contract no longer fits.
use super::*;
#[cfg(verif_replay)]
use crate::verif_replay_shim as kani;
use crate::ReasonCode;

fn succ(id: u16) -> u16 { if id == u16::MAX { 1 } else { id + 1 } }

/// worst case for the probe loop: all in-flight identifiers are consecutive
#[cfg_attr(kani, kani::proof)]
#[cfg_attr(kani, kani::unwind(19))]
#[cfg_attr(verif_replay, test)]
fn k_next_id_dense() {
    let mut storage = [0u8; 1];
    let mut d = SessionData::new(&mut storage);
    // both tables full: the longest run the probe loop can meet
    let (nr, nl): (usize, usize) = (8, 8);
    let start: u16 = kani::any();
    kani::assume(start != 0);
    let mut id = start;
    let mut i = 0;
    while i < nr { d.outbound.retain_packet(id, 0, 0).unwrap(); id = succ(id); i += 1; }
    i = 0;
    while i < nl { d.outbound.queue_release(id, ReasonCode::Success).unwrap(); id = succ(id); i += 1; }
    // cursor: anywhere from the start of the run to just behind it
    let off: usize = kani::any();
    kani::assume(off <= nr + nl);
    let mut cur = start;
    i = 0;
    while i < off { cur = succ(cur); i += 1; }
    d.packet_id = NonZeroU16::new(cur).unwrap();
    let got = d.next_packet_id();
    assert!(got != 0, "identifier 0 handed out");
    assert!(!d.outbound.has_retained(got) && !d.outbound.has_pending_release(got), "identifier still in flight handed out");
    assert!(got == id, "the first free identifier behind the run is expected");
    kani::cover!(off == 0);
}

#[cfg_attr(kani, kani::proof)]
#[cfg_attr(kani, kani::unwind(7))]
#[cfg_attr(verif_replay, test)]
fn k_next_id_small() {
    let mut storage = [0u8; 1];
    let mut d = SessionData::new(&mut storage);
    let (nr, nl): (usize, usize) = (kani::any(), kani::any());
    kani::assume(nr <= 2 && nl <= 2);
    let ids: [u16; 4] = [kani::any(), kani::any(), kani::any(), kani::any()];
    kani::assume(ids[0] != 0 && ids[1] != 0 && ids[2] != 0 && ids[3] != 0);
    if nr >= 1 { d.outbound.retain_packet(ids[0], 0, 0).unwrap(); }
    if nr >= 2 { d.outbound.retain_packet(ids[1], 0, 0).unwrap(); }
    if nl >= 1 { d.outbound.queue_release(ids[2], ReasonCode::Success).unwrap(); }
    if nl >= 2 { d.outbound.queue_release(ids[3], ReasonCode::Success).unwrap(); }
    let cur: u16 = kani::any();
    kani::assume(cur != 0);
    d.packet_id = NonZeroU16::new(cur).unwrap();
    let got = d.next_packet_id();
    assert!(got != 0, "identifier 0 handed out");
    assert!(!d.outbound.has_retained(got) && !d.outbound.has_pending_release(got), "identifier still in flight handed out");
    // the cursor moved past the identifier handed out
    assert!(d.packet_id.get() == succ(got));
    kani::cover!(nr == 2 && nl == 2 && got != cur);
}
