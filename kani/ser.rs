//! Kani harnesses for src/ser/mod.rs (child module: sees `buf`/`index`). Oracle: MQTT 5.0 sections
//! 2.1 (fixed header), 3.x packet layouts, written out as byte patterns.
use super::*;
#[cfg(verif_replay)]
use crate::verif_replay_shim as kani;
use crate::packets::{Disconnect, PingReq, Subscribe, Unsubscribe};
use crate::properties::Properties;
use crate::types::{SubscriptionOptions, TopicFilter};
use crate::wire::Utf8String;
use crate::{QoS, Retain};

const N: usize = 400;

/// finalize: `type<<4|flags`, canonical remaining length, header right-aligned in the 5 reserved bytes,
/// returned slice = exactly header + body, for every body length up to 390 (covers the 1/2-byte
/// remaining-length boundary 127/128; the encoder of the length itself is proved for all u32 in varint.rs)
#[cfg_attr(kani, kani::proof)]
#[cfg_attr(kani, kani::unwind(6))]
#[cfg_attr(verif_replay, test)]
fn k_finalize_framing() {
    let mut storage = [0u8; N];
    let n: usize = kani::any();
    kani::assume(n <= 390);
    let flags: u8 = kani::any();
    let mut s = MqttSerializer::new(&mut storage);
    s.index = MAX_FIXED_HEADER_SIZE + n;
    let r = s.finalize(MessageType::Publish, flags);
    assert!(r.is_ok());
    let (offset, packet) = r.unwrap();
    let vl = if n < 128 { 1 } else { 2 };
    assert!(offset == MAX_FIXED_HEADER_SIZE - vl - 1, "fixed header is not right-aligned");
    assert!(packet.len() == 1 + vl + n, "packet length != 1 + len(varint) + remaining length");
    assert!(packet[0] == (3 << 4) | (flags & 0x0F));
    // canonical little-endian base-128 remaining length
    let mut v = n;
    let mut i = 0;
    while i < vl {
        let mut b = (v & 0x7F) as u8;
        v >>= 7;
        if v != 0 {
            b |= 0x80;
        }
        assert!(packet[1 + i] == b, "remaining length byte");
        i += 1;
    }
    kani::cover!(n == 128);
    kani::cover!(n == 127);
}

/// a buffer shorter than the fixed header is refused, never indexed out of range
#[cfg_attr(kani, kani::proof)]
#[cfg_attr(verif_replay, test)]
fn k_encode_small_buffer() {
    let mut storage = [0u8; 8];
    let n: usize = kani::any();
    kani::assume(n <= 8);
    let r = MqttSerializer::encode(&mut storage[..n], &PingReq);
    assert!(r.is_ok() == (n >= 5));
    if let Ok(p) = r {
        assert!(p.len() == 2 && p[0] == 0xC0 && p[1] == 0);
    }
    kani::cover!(n == 4);
}

#[cfg_attr(kani, kani::proof)]
#[cfg_attr(kani, kani::unwind(12))]
#[cfg_attr(verif_replay, test)]
fn k_disconnect_success() {
    let mut storage = [0u8; 9];
    let r = MqttSerializer::encode(&mut storage, &Disconnect::success());
    assert!(r.is_ok());
    let p = r.unwrap();
    assert!(p.len() == 2 && p[0] == 0xE0 && p[1] == 0x00);
    kani::cover!(true);
}

fn opts(q: u8, nl: bool, rap: bool, rh: u8) -> SubscriptionOptions {
    let mut o = SubscriptionOptions::default().maximum_qos(match q { 0 => QoS::AtMostOnce, 1 => QoS::AtLeastOnce, _ => QoS::ExactlyOnce });
    if nl { o = o.ignore_local_messages(); }
    if rap { o = o.retain_as_published(); }
    o.retain_behavior(match rh { 0 => crate::types::RetainHandling::Immediately, 1 => crate::types::RetainHandling::IfSubscriptionDoesNotExist, _ => crate::types::RetainHandling::Never })
}

/// SUBSCRIBE with one one-byte filter: every id, every option combination, DUP flag
#[cfg_attr(kani, kani::proof)]
#[cfg_attr(kani, kani::unwind(12))]
#[cfg_attr(verif_replay, test)]
fn k_subscribe_layout() {
    let id: u16 = kani::any();
    let q: u8 = kani::any();
    kani::assume(q < 3);
    let nl: bool = kani::any();
    let rap: bool = kani::any();
    let rh: u8 = kani::any();
    kani::assume(rh < 3);
    let dup: bool = kani::any();
    let topics = [TopicFilter::new("a").options(opts(q, nl, rap, rh))];
    let mut storage = [0u8; 32];
    let r = MqttSerializer::encode(&mut storage, &Subscribe { packet_id: id, dup, properties: Properties::from_slice(&[]), topics: &topics });
    assert!(r.is_ok());
    let p = r.unwrap();
    let ob = q | ((nl as u8) << 2) | ((rap as u8) << 3) | (rh << 4);
    assert!(p.len() == 9);
    assert!(p[0] == 0x82 | ((dup as u8) << 3) && p[1] == 7 && p[2] == (id >> 8) as u8 && p[3] == id as u8 && p[4] == 0
        && p[5] == 0 && p[6] == 1 && p[7] == b'a' && p[8] == ob);
    kani::cover!(rh == 2 && nl);
}
/// UNSUBSCRIBE with one one-byte filter
#[cfg_attr(kani, kani::proof)]
#[cfg_attr(kani, kani::unwind(12))]
#[cfg_attr(verif_replay, test)]
fn k_unsubscribe_layout() {
    let id: u16 = kani::any();
    let dup: bool = kani::any();
    let topics = ["b"];
    let mut storage = [0u8; 32];
    let r = MqttSerializer::encode(&mut storage, &Unsubscribe { packet_id: id, dup, properties: Properties::from_slice(&[]), topics: &topics });
    assert!(r.is_ok());
    let p = r.unwrap();
    assert!(p.len() == 8 && p[0] == 0xA2 | ((dup as u8) << 3) && p[1] == 6 && p[2] == (id >> 8) as u8 && p[3] == id as u8
        && p[4] == 0 && p[5] == 0 && p[6] == 1 && p[7] == b'b');
    kani::cover!(true);
}

/// PUBLISH: fixed-header flags for every QoS / retain / dup, id present iff QoS > 0, payload appended verbatim
#[cfg_attr(kani, kani::proof)]
#[cfg_attr(kani, kani::unwind(12))]
#[cfg_attr(verif_replay, test)]
fn k_publish_layout() {
    let q: u8 = kani::any();
    kani::assume(q < 3);
    let qos = match q { 0 => QoS::AtMostOnce, 1 => QoS::AtLeastOnce, _ => QoS::ExactlyOnce };
    let retain: bool = kani::any();
    let dup: bool = kani::any();
    let id: u16 = kani::any();
    let pl: [u8; 2] = kani::any();
    let header = PublishHeader {
        topic: Utf8String("t"), packet_id: if q > 0 { Some(id) } else { None }, properties: Properties::from_slice(&[]),
        retain: if retain { Retain::Retained } else { Retain::NotRetained }, qos, dup,
    };
    let mut storage = [0u8; 32];
    let r = MqttSerializer::encode_publish(&mut storage, &header, &pl[..]);
    assert!(r.is_ok());
    let p = r.unwrap();
    let flags = (q << 1) | (retain as u8) | ((dup as u8) << 3);
    assert!(p[0] == 0x30 | flags);
    if q == 0 {
        assert!(p.len() == 8 && p[1] == 6 && p[2] == 0 && p[3] == 1 && p[4] == b't' && p[5] == 0 && p[6] == pl[0] && p[7] == pl[1]);
    } else {
        assert!(p.len() == 10 && p[1] == 8 && p[2] == 0 && p[3] == 1 && p[4] == b't' && p[5] == (id >> 8) as u8 && p[6] == id as u8
            && p[7] == 0 && p[8] == pl[0] && p[9] == pl[1]);
    }
    kani::cover!(q == 2 && dup);
}

fn mk_prop(kind: u8, a: u8, b: u16, c: u32) -> crate::properties::Property<'static> {
    use crate::properties::Property;
    match kind {
        0 => Property::PayloadFormatIndicator(a),
        1 => Property::MessageExpiryInterval(c),
        2 => Property::ContentType("ty"),
        3 => Property::ResponseTopic("r"),
        4 => Property::CorrelationData(&[1, 2]),
        5 => Property::SubscriptionIdentifier(c),
        6 => Property::SessionExpiryInterval(c),
        7 => Property::AssignedClientIdentifier("c"),
        8 => Property::ServerKeepAlive(b),
        9 => Property::AuthenticationMethod("m"),
        10 => Property::AuthenticationData(&[3]),
        11 => Property::RequestProblemInformation(a),
        12 => Property::WillDelayInterval(c),
        13 => Property::RequestResponseInformation(a),
        14 => Property::ResponseInformation("i"),
        15 => Property::ServerReference("s"),
        16 => Property::ReasonString(""),
        17 => Property::ReceiveMaximum(b),
        18 => Property::TopicAliasMaximum(b),
        19 => Property::TopicAlias(b),
        20 => Property::MaximumQoS(a),
        21 => Property::RetainAvailable(a),
        22 => Property::UserProperty("k", "vv"),
        23 => Property::MaximumPacketSize(c),
        24 => Property::WildcardSubscriptionAvailable(a),
        25 => Property::SubscriptionIdentifierAvailable(a),
        _ => Property::SharedSubscriptionAvailable(a),
    }
}

/// (identifier, payload length) of each kind as built by `mk_prop` (MQTT 5.0 section 2.2.2.2: the data
/// type of each property; UTF-8 strings and binary data carry a two-byte length prefix)
fn oracle_prop(kind: u8, c: u32) -> (u8, usize) {
    let vlen = if c < 128 { 1 } else if c < 16_384 { 2 } else if c < 2_097_152 { 3 } else { 4 };
    match kind {
        0 => (0x01, 1),
        1 => (0x02, 4),
        2 => (0x03, 2 + 2),
        3 => (0x08, 2 + 1),
        4 => (0x09, 2 + 2),
        5 => (0x0B, vlen),
        6 => (0x11, 4),
        7 => (0x12, 2 + 1),
        8 => (0x13, 2),
        9 => (0x15, 2 + 1),
        10 => (0x16, 2 + 1),
        11 => (0x17, 1),
        12 => (0x18, 4),
        13 => (0x19, 1),
        14 => (0x1A, 2 + 1),
        15 => (0x1C, 2 + 1),
        16 => (0x1F, 2),
        17 => (0x21, 2),
        18 => (0x22, 2),
        19 => (0x23, 2),
        20 => (0x24, 1),
        21 => (0x25, 1),
        22 => (0x26, 2 + 1 + 2 + 2),
        23 => (0x27, 4),
        24 => (0x28, 1),
        25 => (0x29, 1),
        _ => (0x2A, 1),
    }
}

/// C09 "Property::size must equal the bytes Property::serialize emits": a DISCONNECT carrying ONE
/// property of every kind (numeric values symbolic over their whole domain, strings fixed and short):
/// the declared property-block length, the remaining length and the bytes actually written agree, and
/// the block starts with the kind's identifier.
fn property_block_size(kind: u8) {
    let a: u8 = kani::any();
    let b: u16 = kani::any();
    let c: u32 = kani::any();
    kani::assume(kind != 5 || c <= 268_435_455);
    let props = [mk_prop(kind, a, b, c)];
    let mut storage = [0u8; 32];
    let packet = Disconnect::success().with_properties(&props);
    let r = MqttSerializer::encode(&mut storage, &packet);
    assert!(r.is_ok());
    let p = r.unwrap();
    let (id, plen) = oracle_prop(kind, c);
    // fixed header, remaining length, reason code, property length, identifier
    assert!(p[0] == 0xE0);
    assert!(p[1] as usize == 1 + 1 + 1 + plen, "remaining length");
    assert!(p[2] == 0x00);
    assert!(p[3] as usize == 1 + plen, "declared property-block length != bytes emitted");
    assert!(p[4] == id, "property identifier");
    assert!(p.len() == 2 + 1 + 1 + 1 + plen, "bytes written");
    assert!(props[0].size() == 1 + plen, "Property::size");
}

/// numeric kinds other than the Subscription Identifier
#[cfg_attr(kani, kani::proof)]
#[cfg_attr(kani, kani::unwind(12))]
#[cfg_attr(verif_replay, test)]
fn k_property_block_numeric() {
    let i: u8 = kani::any();
    const KINDS: [u8; 17] = [0, 1, 6, 8, 11, 12, 13, 17, 18, 19, 20, 21, 23, 24, 25, 26, 26];
    kani::assume(i < 16);
    property_block_size(KINDS[i as usize]);
    kani::cover!(i == 15);
}

/// Subscription Identifier: variable byte integer over its whole domain (all four widths)
#[cfg_attr(kani, kani::proof)]
#[cfg_attr(kani, kani::unwind(12))]
#[cfg_attr(verif_replay, test)]
fn k_property_block_subscription_id() {
    property_block_size(5);
    kani::cover!(true);
}

/// string / binary / pair kinds (fixed short contents)
#[cfg_attr(kani, kani::proof)]
#[cfg_attr(kani, kani::unwind(12))]
#[cfg_attr(verif_replay, test)]
fn k_property_block_strings() {
    let i: u8 = kani::any();
    const KINDS: [u8; 10] = [2, 3, 4, 7, 9, 10, 14, 15, 16, 22];
    kani::assume(i < 10);
    property_block_size(KINDS[i as usize]);
    kani::cover!(i == 9);
}

/// C09 CONNECT: flag byte from clean start / will (QoS, retain) / credentials, keep-alive big-endian,
/// protocol name and level, for every combination
fn connect_layout(has_will: bool, has_auth: bool) {
    use crate::packets::Connect;
    use crate::types::Auth;
    use crate::will::Will;
    let keepalive: u16 = kani::any();
    let clean_start: bool = kani::any();
    let wq: u8 = kani::any();
    kani::assume(wq < 3);
    let wr: bool = kani::any();
    let will = if has_will {
        let w = Will::new("w", &[9], &[]).unwrap();
        let w = w.qos(match wq { 0 => QoS::AtMostOnce, 1 => QoS::AtLeastOnce, _ => QoS::ExactlyOnce });
        Some(if wr { w.retained() } else { w })
    } else {
        None
    };
    let packet = Connect {
        keepalive,
        properties: Properties::from_slice(&[]),
        client_id: Utf8String("c"),
        auth: if has_auth { Some(Auth::new("u", &[7])) } else { None },
        will,
        clean_start,
    };
    let mut storage = [0u8; 48];
    let r = MqttSerializer::encode(&mut storage, &packet);
    assert!(r.is_ok());
    let p = r.unwrap();
    let want_flags = ((clean_start as u8) << 1)
        | if has_will { (1 << 2) | (wq << 3) | ((wr as u8) << 5) } else { 0 }
        | if has_auth { 0xC0 } else { 0 };
    let body = 10 + 1 + 3 + if has_will { 1 + 3 + 3 } else { 0 } + if has_auth { 3 + 3 } else { 0 };
    assert!(p[0] == 0x10 && p[1] as usize == body && p.len() == 2 + body);
    assert!(p[2] == 0 && p[3] == 4 && p[4] == b'M' && p[5] == b'Q' && p[6] == b'T' && p[7] == b'T' && p[8] == 5);
    assert!(p[9] == want_flags, "CONNECT flags");
    assert!(p[10] == (keepalive >> 8) as u8 && p[11] == keepalive as u8, "keep-alive");
    assert!(p[12] == 0, "empty property block");
    assert!(p[13] == 0 && p[14] == 1 && p[15] == b'c', "client id");
    if has_will {
        // will properties (empty), topic "w", payload [9]
        assert!(p[16] == 0 && p[17] == 0 && p[18] == 1 && p[19] == b'w' && p[20] == 0 && p[21] == 1 && p[22] == 9);
    }
    if has_auth {
        let o = if has_will { 23 } else { 16 };
        assert!(p[o] == 0 && p[o + 1] == 1 && p[o + 2] == b'u' && p[o + 3] == 0 && p[o + 4] == 1 && p[o + 5] == 7);
    }
    kani::cover!(wq == 2 && wr);
}

#[cfg_attr(kani, kani::proof)]
#[cfg_attr(kani, kani::unwind(12))]
#[cfg_attr(verif_replay, test)]
fn k_connect_plain() {
    connect_layout(false, false);
}

#[cfg_attr(kani, kani::proof)]
#[cfg_attr(kani, kani::unwind(12))]
#[cfg_attr(verif_replay, test)]
fn k_connect_will() {
    connect_layout(true, false);
}

#[cfg_attr(kani, kani::proof)]
#[cfg_attr(kani, kani::unwind(12))]
#[cfg_attr(verif_replay, test)]
fn k_connect_auth() {
    connect_layout(false, true);
}

#[cfg_attr(kani, kani::proof)]
#[cfg_attr(kani, kani::unwind(12))]
#[cfg_attr(verif_replay, test)]
fn k_connect_will_auth() {
    connect_layout(true, true);
}
