//! Kani harnesses for src/ser/mod.rs (child module: sees `buf`/`index`). Oracle: MQTT 5.0 sections
//! 2.1 (fixed header), 3.x packet layouts, written out as byte patterns.
use super::*;
#[cfg(verif_replay)]
use crate::verif_replay_shim as kani;
use crate::packets::{Disconnect, PingReq, Subscribe, Unsubscribe};
use crate::properties::Properties;
use crate::types::{SubscriptionOptions, TopicFilter};
use crate::wire::Utf8String;
use crate::{QoS, Retain};

const N: usize = 400;

/// finalize: `type<<4|flags`, canonical remaining length, header right-aligned in the 5 reserved bytes,
/// returned slice = exactly header + body, for every body length up to 390 (covers the 1/2-byte
/// remaining-length boundary 127/128; the encoder of the length itself is proved for all u32 in varint.rs)
#[cfg_attr(kani, kani::proof)]
#[cfg_attr(kani, kani::unwind(6))]
#[cfg_attr(verif_replay, test)]
fn k_finalize_framing() {
    let mut storage = [0u8; N];
    let n: usize = kani::any();
    kani::assume(n <= 390);
    let flags: u8 = kani::any();
    let mut s = MqttSerializer::new(&mut storage);
    s.index = MAX_FIXED_HEADER_SIZE + n;
    let r = s.finalize(MessageType::Publish, flags);
    assert!(r.is_ok());
    let (offset, packet) = r.unwrap();
    let vl = if n < 128 { 1 } else { 2 };
    assert!(offset == MAX_FIXED_HEADER_SIZE - vl - 1, "fixed header is not right-aligned");
    assert!(packet.len() == 1 + vl + n, "packet length != 1 + len(varint) + remaining length");
    assert!(packet[0] == (3 << 4) | (flags & 0x0F));
    // canonical little-endian base-128 remaining length
    let mut v = n;
    let mut i = 0;
    while i < vl {
        let mut b = (v & 0x7F) as u8;
        v >>= 7;
        if v != 0 {
            b |= 0x80;
        }
        assert!(packet[1 + i] == b, "remaining length byte");
        i += 1;
    }
    kani::cover!(n == 128);
    kani::cover!(n == 127);
}

/// a buffer shorter than the fixed header is refused, never indexed out of range
#[cfg_attr(kani, kani::proof)]
#[cfg_attr(verif_replay, test)]
fn k_encode_small_buffer() {
    let mut storage = [0u8; 8];
    let n: usize = kani::any();
    kani::assume(n <= 8);
    let r = MqttSerializer::encode(&mut storage[..n], &PingReq);
    assert!(r.is_ok() == (n >= 5));
    if let Ok(p) = r {
        assert!(p.len() == 2 && p[0] == 0xC0 && p[1] == 0);
    }
    kani::cover!(n == 4);
}

#[cfg_attr(kani, kani::proof)]
#[cfg_attr(kani, kani::unwind(12))]
#[cfg_attr(verif_replay, test)]
fn k_disconnect_success() {
    let mut storage = [0u8; 9];
    let r = MqttSerializer::encode(&mut storage, &Disconnect::success());
    assert!(r.is_ok());
    let p = r.unwrap();
    assert!(p.len() == 2 && p[0] == 0xE0 && p[1] == 0x00);
    kani::cover!(true);
}

fn opts(q: u8, nl: bool, rap: bool, rh: u8) -> SubscriptionOptions {
    let mut o = SubscriptionOptions::default().maximum_qos(match q { 0 => QoS::AtMostOnce, 1 => QoS::AtLeastOnce, _ => QoS::ExactlyOnce });
    if nl { o = o.ignore_local_messages(); }
    if rap { o = o.retain_as_published(); }
    o.retain_behavior(match rh { 0 => crate::types::RetainHandling::Immediately, 1 => crate::types::RetainHandling::IfSubscriptionDoesNotExist, _ => crate::types::RetainHandling::Never })
}

/// SUBSCRIBE with one one-byte filter: every id, every option combination, DUP flag
#[cfg_attr(kani, kani::proof)]
#[cfg_attr(kani, kani::unwind(12))]
#[cfg_attr(verif_replay, test)]
fn k_subscribe_layout() {
    let id: u16 = kani::any();
    let q: u8 = kani::any();
    kani::assume(q < 3);
    let nl: bool = kani::any();
    let rap: bool = kani::any();
    let rh: u8 = kani::any();
    kani::assume(rh < 3);
    let dup: bool = kani::any();
    let topics = [TopicFilter::new("a").options(opts(q, nl, rap, rh))];
    let mut storage = [0u8; 32];
    let r = MqttSerializer::encode(&mut storage, &Subscribe { packet_id: id, dup, properties: Properties::from_slice(&[]), topics: &topics });
    assert!(r.is_ok());
    let p = r.unwrap();
    let ob = q | ((nl as u8) << 2) | ((rap as u8) << 3) | (rh << 4);
    assert!(p.len() == 9);
    assert!(p[0] == 0x82 | ((dup as u8) << 3) && p[1] == 7 && p[2] == (id >> 8) as u8 && p[3] == id as u8 && p[4] == 0
        && p[5] == 0 && p[6] == 1 && p[7] == b'a' && p[8] == ob);
    kani::cover!(rh == 2 && nl);
}
/// UNSUBSCRIBE with one one-byte filter
#[cfg_attr(kani, kani::proof)]
#[cfg_attr(kani, kani::unwind(12))]
#[cfg_attr(verif_replay, test)]
fn k_unsubscribe_layout() {
    let id: u16 = kani::any();
    let dup: bool = kani::any();
    let topics = ["b"];
    let mut storage = [0u8; 32];
    let r = MqttSerializer::encode(&mut storage, &Unsubscribe { packet_id: id, dup, properties: Properties::from_slice(&[]), topics: &topics });
    assert!(r.is_ok());
    let p = r.unwrap();
    assert!(p.len() == 8 && p[0] == 0xA2 | ((dup as u8) << 3) && p[1] == 6 && p[2] == (id >> 8) as u8 && p[3] == id as u8
        && p[4] == 0 && p[5] == 0 && p[6] == 1 && p[7] == b'b');
    kani::cover!(true);
}

/// PUBLISH: fixed-header flags for every QoS / retain / dup, id present iff QoS > 0, payload appended verbatim
#[cfg_attr(kani, kani::proof)]
#[cfg_attr(kani, kani::unwind(12))]
#[cfg_attr(verif_replay, test)]
fn k_publish_layout() {
    let q: u8 = kani::any();
    kani::assume(q < 3);
    let qos = match q { 0 => QoS::AtMostOnce, 1 => QoS::AtLeastOnce, _ => QoS::ExactlyOnce };
    let retain: bool = kani::any();
    let dup: bool = kani::any();
    let id: u16 = kani::any();
    let pl: [u8; 2] = kani::any();
    let header = PublishHeader {
        topic: Utf8String("t"), packet_id: if q > 0 { Some(id) } else { None }, properties: Properties::from_slice(&[]),
        retain: if retain { Retain::Retained } else { Retain::NotRetained }, qos, dup,
    };
    let mut storage = [0u8; 32];
    let r = MqttSerializer::encode_publish(&mut storage, &header, &pl[..]);
    assert!(r.is_ok());
    let p = r.unwrap();
    let flags = (q << 1) | (retain as u8) | ((dup as u8) << 3);
    assert!(p[0] == 0x30 | flags);
    if q == 0 {
        assert!(p.len() == 8 && p[1] == 6 && p[2] == 0 && p[3] == 1 && p[4] == b't' && p[5] == 0 && p[6] == pl[0] && p[7] == pl[1]);
    } else {
        assert!(p.len() == 10 && p[1] == 8 && p[2] == 0 && p[3] == 1 && p[4] == b't' && p[5] == (id >> 8) as u8 && p[6] == id as u8
            && p[7] == 0 && p[8] == pl[0] && p[9] == pl[1]);
    }
    kani::cover!(q == 2 && dup);
}
