//! Kani harnesses for src/reason_codes.rs: the num_enum conversions assumed by the Verus lane.
use super::*;
#[cfg(verif_replay)]
use crate::verif_replay_shim as kani;

/// MQTT 5.0 table 2.4.0-1: the defined reason code bytes
fn defined(b: u8) -> bool {
    matches!(b, 0x00 | 0x01 | 0x02 | 0x04 | 0x10 | 0x11 | 0x18 | 0x19 | 0x80..=0x89 | 0x8c..=0xa2 | 0xFF)
}

#[cfg_attr(kani, kani::proof)]
#[cfg_attr(verif_replay, test)]
fn k_reason_code_bytes() {
    let b: u8 = kani::any();
    let rc = ReasonCode::from(b);
    let back: u8 = (&rc).into();
    if defined(b) {
        assert!(back == b, "defined reason code does not round-trip");
    } else {
        assert!(rc == ReasonCode::Unknown && back == 0xFF, "undefined byte must map to Unknown");
    }
    assert!(rc.success() == (back < 0x80));
    assert!(rc.failed() == (back >= 0x80));
    assert!(rc.as_result().is_ok() == (back < 0x80));
    kani::cover!(defined(b));
}
