//! Cross-check of the heapless::Vec contract assumed by the Verus lane (contracts/00_prelude.vrs)
//! against the real heapless crate, on arbitrary contents with N = 8.
#[cfg(verif_replay)]
use crate::verif_replay_shim as kani;
use heapless::Vec;

fn any_vec() -> (Vec<u16, 8>, [u16; 8], usize) {
    let n: usize = kani::any();
    kani::assume(n <= 8);
    let a: [u16; 8] = kani::any();
    let mut v: Vec<u16, 8> = Vec::new();
    let mut i = 0;
    while i < n {
        v.push(a[i]).unwrap();
        i += 1;
    }
    (v, a, n)
}

#[cfg_attr(kani, kani::proof)]
#[cfg_attr(kani, kani::unwind(10))]
#[cfg_attr(verif_replay, test)]
fn k_hvec_push_remove() {
    let (mut v, a, n) = any_vec();
    assert!(v.len() == n && v.capacity() == 8 && v.is_full() == (n == 8) && v.is_empty() == (n == 0));
    let x: u16 = kani::any();
    let r = v.push(x);
    if n < 8 {
        assert!(r.is_ok() && v.len() == n + 1 && v[n] == x);
    } else {
        assert!(r == Err(x) && v.len() == 8);
    }
    // remove(k): order preserving
    let k: usize = kani::any();
    kani::assume(k < v.len());
    let before = v.clone();
    let removed = v.remove(k);
    assert!(removed == before[k] && v.len() == before.len() - 1);
    let j: usize = kani::any();
    kani::assume(j < v.len());
    assert!(v[j] == if j < k { before[j] } else { before[j + 1] });
    let _ = a;
    kani::cover!(n == 8);
}

#[cfg_attr(kani, kani::proof)]
#[cfg_attr(kani, kani::unwind(10))]
#[cfg_attr(verif_replay, test)]
fn k_hvec_swap_remove_search() {
    let (mut v, _a, n) = any_vec();
    kani::assume(n >= 1);
    let before = v.clone();
    let x: u16 = kani::any();
    // position / any / contains: first match in order
    let pos = v.iter().position(|e| *e == x);
    match pos {
        Some(p) => {
            assert!(p < n && before[p] == x);
            let j: usize = kani::any();
            kani::assume(j < p);
            assert!(before[j] != x);
        }
        None => {
            let j: usize = kani::any();
            kani::assume(j < n);
            assert!(before[j] != x);
        }
    }
    assert!(v.iter().any(|e| *e == x) == pos.is_some());
    assert!(v.contains(&x) == pos.is_some());
    // swap_remove(k): last element moves into the hole
    let k: usize = kani::any();
    kani::assume(k < n);
    let removed = v.swap_remove(k);
    assert!(removed == before[k] && v.len() == n - 1);
    let j: usize = kani::any();
    kani::assume(j < v.len());
    assert!(v[j] == if j == k { before[n - 1] } else { before[j] });
    kani::cover!(pos.is_some());
}

#[cfg_attr(kani, kani::proof)]
#[cfg_attr(kani, kani::unwind(10))]
#[cfg_attr(verif_replay, test)]
fn k_hvec_retain_clear() {
    let (mut v, _a, n) = any_vec();
    let before = v.clone();
    let t: u16 = kani::any();
    v.retain(|e| *e != t);
    // model: elements with keep flag, in order
    let mut m = 0usize;
    let mut i = 0usize;
    while i < n {
        if before[i] != t {
            assert!(m < v.len() && v[m] == before[i]);
            m += 1;
        }
        i += 1;
    }
    assert!(v.len() == m);
    v.clear();
    assert!(v.len() == 0);
    kani::cover!(m < n);
}
