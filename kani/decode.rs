//! Kani harness attached as a child module of src/de/received_packet.rs.
//! C08 (bounded stand-in for the serde decoder, which the Verus lane treats as an assumed leaf):
//! the four QoS acknowledgement packets PUBACK / PUBREC / PUBREL / PUBCOMP in all three spec-valid
//! shapes (MQTT 5.0 sections 3.4-3.7: remaining length 2 = id only; 3 = id + reason code; 4 = id +
//! reason code + empty property block), every header byte, every identifier, every reason code byte.
//! Oracle written out here: reserved flags are 0 (0010 for PUBREL); anything else is malformed.
use super::*;
#[cfg(verif_replay)]
use crate::verif_replay_shim as kani;
use crate::reason_codes::ReasonCode;

#[cfg_attr(kani, kani::proof)]
#[cfg_attr(kani, kani::unwind(8))]
#[cfg_attr(verif_replay, test)]
fn k_decode_acks() {
    let hdr: u8 = kani::any();
    let ty = hdr >> 4;
    kani::assume(ty >= 4 && ty <= 7);
    let rl: u8 = kani::any();
    kani::assume(rl >= 2 && rl <= 4);
    let id: u16 = kani::any();
    let rc: u8 = kani::any();
    let buf = [hdr, rl, (id >> 8) as u8, id as u8, rc, 0];
    let r = ReceivedPacket::from_buffer(&buf[..2 + rl as usize]);
    let flags_ok = (hdr & 0x0F) == if ty == 6 { 2 } else { 0 };
    if !flags_ok {
        assert!(r.is_err(), "reserved fixed-header flags accepted");
    } else {
        // a spec-valid acknowledgement: accepted with exactly the values sent
        assert!(r.is_ok(), "valid acknowledgement rejected");
        let want = if rl == 2 { ReasonCode::Success } else { ReasonCode::from(rc) };
        match r.unwrap() {
            ReceivedPacket::PubAck(p) => assert!(ty == 4 && p.packet_id == id && p.reason.code() == want),
            ReceivedPacket::PubRec(p) => assert!(ty == 5 && p.packet_id == id && p.reason.code() == want),
            ReceivedPacket::PubRel(p) => assert!(ty == 6 && p.packet_id == id && p.reason.code() == want),
            ReceivedPacket::PubComp(p) => assert!(ty == 7 && p.packet_id == id && p.reason.code() == want),
            _ => assert!(false, "decoded as a different packet type"),
        }
    }
    kani::cover!(flags_ok && rl == 4 && ty == 6);
    kani::cover!(!flags_ok);
}

/// PINGRESP / truncated input: `D0 00` is accepted, any other two-byte packet of type 13 or a lone
/// header byte is rejected, nothing panics
#[cfg_attr(kani, kani::proof)]
#[cfg_attr(kani, kani::unwind(8))]
#[cfg_attr(verif_replay, test)]
fn k_decode_short() {
    let b0: u8 = kani::any();
    let b1: u8 = kani::any();
    let n: usize = kani::any();
    kani::assume(n <= 2);
    let buf = [b0, b1];
    let r = ReceivedPacket::from_buffer(&buf[..n]);
    if n < 2 {
        assert!(r.is_err(), "truncated packet accepted");
    }
    if n == 2 && b0 == 0xD0 && b1 == 0 {
        assert!(matches!(r, Ok(ReceivedPacket::PingResp)));
    }
    if n == 2 && (b0 >> 4) == 13 && (b0 & 0x0F) != 0 {
        assert!(r.is_err());
    }
    kani::cover!(n == 2 && b0 == 0xD0 && b1 == 0);
}

/// C08 "non-canonical variable-length integer is rejected": a PINGRESP whose remaining length 0 is
/// encoded non-minimally in 2, 3 or 4 bytes (`D0 80 00`, `D0 80 80 00`, `D0 80 80 80 00`), or with a
/// fifth length byte, must be rejected — the packet reader's framing probe is lenient, so this decoder
/// check is the only one on the fixed-header length.  (The decoder is only ever handed exactly the
/// announced number of bytes — `take_packet` slices `buffer[..packet_length]` — so a declared length that
/// differs from the slice is outside its precondition and deliberately not part of this contract.)
#[cfg_attr(kani, kani::proof)]
#[cfg_attr(kani, kani::unwind(8))]
#[cfg_attr(verif_replay, test)]
fn k_decode_noncanonical_len() {
    let k: usize = kani::any();
    kani::assume(k >= 2 && k <= 5);
    let low: u8 = kani::any();
    kani::assume(low == 0x80);
    let mut buf = [0u8; 6];
    buf[0] = 0xD0;
    let mut i = 1;
    while i < k {
        buf[i] = low;
        i += 1;
    }
    buf[k] = 0x00;
    let r = ReceivedPacket::from_buffer(&buf[..1 + k]);
    assert!(r.is_err(), "non-canonical remaining length accepted");
    kani::cover!(k == 2);
    kani::cover!(k == 5);
}
