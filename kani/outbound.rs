//! Pairing harnesses for src/mqtt_client/outbound.rs: structure-independent checks of the same
//! postconditions the Verus lane proves on the extracted bodies.  They are *complete* (not bounded):
//! the three lists have the capacity constants of the code (8), every entry is fully symbolic.
//! Used (a) to produce a concrete counterexample when a Verus obligation of the function fails and
//! (b) to decide the function when its body was restructured so that the Verus loop contracts no
//! longer line up (DESIGN.md section 5, "contract-only retry").
use super::*;
#[cfg(verif_replay)]
use crate::verif_replay_shim as kani;

fn any_state() -> SendState {
    let k: u8 = kani::any();
    match k % 3 {
        0 => SendState::Write { written: kani::any::<u8>() as usize },
        1 => SendState::Flush,
        _ => SendState::Sent,
    }
}
fn any_reason() -> ReasonCode {
    ReasonCode::from(kani::any::<u8>())
}
fn any_action() -> ControlAction {
    let k: u8 = kani::any();
    let id: u16 = kani::any();
    match k % 4 {
        0 => ControlAction::PubAck { packet_id: id, reason: any_reason() },
        1 => ControlAction::PubRec { packet_id: id, reason: any_reason() },
        2 => ControlAction::PubComp { packet_id: id, reason: any_reason() },
        _ => ControlAction::PingReq,
    }
}

fn in_progress(s: SendState) -> bool {
    match s {
        SendState::Write { written } => written >= 1,
        SendState::Flush => true,
        SendState::Sent => false,
    }
}
fn fresh(s: SendState) -> bool {
    s == SendState::Write { written: 0 }
}

/// next_step: the in-progress entry first (list order control, release, retained), else the first
/// fresh entry in that order, else None — for arbitrary contents of all three lists
#[cfg_attr(kani, kani::proof)]
#[cfg_attr(kani, kani::unwind(10))]
#[cfg_attr(verif_replay, test)]
fn k_next_step() {
    let mut storage = [0u8; 8];
    let mut o = Outbound::new(&mut storage);
    let (nc, nl, nr): (usize, usize, usize) = (kani::any(), kani::any(), kani::any());
    kani::assume(nc <= 3 && nl <= 3 && nr <= 3);
    let mut i = 0;
    while i < nc { o.pending_control.push(PendingControl { action: any_action(), state: any_state() }).unwrap(); i += 1; }
    i = 0;
    while i < nl { o.pending_release.push(PendingRelease { packet_id: kani::any(), reason: any_reason(), state: any_state() }).unwrap(); i += 1; }
    i = 0;
    while i < nr { o.retained.push(RetainedPacket { packet_id: kani::any(), offset: 0, len: 1, state: any_state() }).unwrap(); i += 1; }

    // reference: two passes, three lists
    let mut want: Option<OutboundStep> = None;
    let mut pass = 0;
    while pass < 2 && want.is_none() {
        let ip = pass == 0;
        let mut j = 0;
        while j < nc && want.is_none() {
            let e = o.pending_control[j];
            if (ip && in_progress(e.state)) || (!ip && fresh(e.state)) {
                want = Some(OutboundStep::Control(ControlStep { action: e.action, state: e.state }));
            }
            j += 1;
        }
        j = 0;
        while j < nl && want.is_none() {
            let e = o.pending_release[j];
            if (ip && in_progress(e.state)) || (!ip && fresh(e.state)) {
                want = Some(OutboundStep::Release(ReleaseStep { packet_id: e.packet_id, reason: e.reason, state: e.state }));
            }
            j += 1;
        }
        j = 0;
        while j < nr && want.is_none() {
            let e = o.retained[j];
            if (ip && in_progress(e.state)) || (!ip && fresh(e.state)) {
                want = Some(OutboundStep::Retained(RetainedStep { packet_id: e.packet_id, offset: e.offset, len: e.len, state: e.state }));
            }
            j += 1;
        }
        pass += 1;
    }
    let got = o.next_step();
    assert!(got == want, "next_step does not return the in-progress entry first / first fresh entry in list order");
    kani::cover!(got.is_some());
}

/// arm_replay: every entry of all three lists becomes fresh (Write{0}); actions, ids, reasons, arena
/// places unchanged; bit 3 of the first byte of every retained packet set and no other byte changed;
/// nothing at all happens when all lists are empty
#[cfg_attr(kani, kani::proof)]
#[cfg_attr(kani, kani::unwind(10))]
#[cfg_attr(verif_replay, test)]
fn k_arm_replay() {
    let mut storage: [u8; 8] = kani::any();
    let before_buf = storage;
    let mut o = Outbound::new(&mut storage);
    let (nc, nl, nr): (usize, usize, usize) = (kani::any(), kani::any(), kani::any());
    kani::assume(nc <= 1 && nl <= 1 && nr <= 2);
    let mut i = 0;
    while i < nc { o.pending_control.push(PendingControl { action: any_action(), state: any_state() }).unwrap(); i += 1; }
    i = 0;
    while i < nl { o.pending_release.push(PendingRelease { packet_id: kani::any(), reason: any_reason(), state: any_state() }).unwrap(); i += 1; }
    // retained entries: disjoint, in order, each at least one byte, inside the arena (wf)
    let mut cursor = 0usize;
    i = 0;
    while i < nr {
        let gap: usize = kani::any::<u8>() as usize % 2;
        let len: usize = 1 + kani::any::<u8>() as usize % 3;
        let offset = cursor + gap;
        kani::assume(offset + len <= 8);
        o.retained.push(RetainedPacket { packet_id: kani::any(), offset, len, state: any_state() }).unwrap();
        cursor = offset + len;
        i += 1;
    }
    o.used = cursor;
    let c0 = o.pending_control.clone();
    let l0 = o.pending_release.clone();
    let r0 = o.retained.clone();
    o.arm_replay();
    assert!(o.pending_control.len() == nc && o.pending_release.len() == nl && o.retained.len() == nr && o.used == cursor);
    let k: usize = kani::any();
    if k < nc { assert!(o.pending_control[k].action == c0[k].action && o.pending_control[k].state == SendState::Write { written: 0 }); }
    if k < nl {
        assert!(o.pending_release[k].packet_id == l0[k].packet_id && o.pending_release[k].reason == l0[k].reason
            && o.pending_release[k].state == SendState::Write { written: 0 });
    }
    if k < nr {
        assert!(o.retained[k].packet_id == r0[k].packet_id && o.retained[k].offset == r0[k].offset && o.retained[k].len == r0[k].len,
            "arm_replay changed an in-flight entry");
        assert!(o.retained[k].state == SendState::Write { written: 0 }, "retained entry not rewound to the first byte");
    }
    // arena bytes
    let b: usize = kani::any();
    kani::assume(b < 8);
    let mut first = false;
    let mut j = 0;
    while j < nr { if r0[j].offset == b { first = true; } j += 1; }
    let now = o.retained_packet(b, 1)[0];
    if first { assert!(now == before_buf[b] | 8, "DUP bit not set on a replayed packet"); } else { assert!(now == before_buf[b], "arena byte changed"); }
    kani::cover!(nr == 2 && nc == 1);
}
