//! Kani harnesses attached as a child module of src/mqtt_client/mod.rs (sees private items).
//! C20: the reply target of an inbound publish is the FIRST Response Topic and the FIRST Correlation
//! Data of its property list, whatever their positions; no reply without a response topic; an owned
//! copy fails instead of truncating.  Oracle written out here (list scan), not taken from the crate.
//! Bound: decoded property lists of at most 3 entries over 6 representative entries.
use super::*;
#[cfg(verif_replay)]
use crate::verif_replay_shim as kani;
use crate::properties::{Properties, Property};

/// these harnesses build decoded (slice) property lists only: the lazily decoding iterator arm must
/// be unreachable; reaching it fails the harness instead of exploring the serde decoder
#[cfg(kani)]
impl<'a> crate::de::MqttDeserializer<'a> {
    fn verif_reply_no_encoded_block(_buf: &'a [u8]) -> Self {
        panic!("encoded property block reached in a decoded-list harness")
    }
}

const TOPIC_A: &str = "a/b";
const TOPIC_B: &str = "other";
const CORR_A: &[u8] = &[1, 0, 0xFF];
const CORR_B: &[u8] = &[];

fn mk(k: u8) -> Property<'static> {
    match k {
        0 => Property::ResponseTopic(TOPIC_A),
        1 => Property::ResponseTopic(TOPIC_B),
        2 => Property::CorrelationData(CORR_A),
        3 => Property::CorrelationData(CORR_B),
        4 => Property::UserProperty("k", "v"),
        _ => Property::ContentType("t"),
    }
}

fn same_bytes(a: &[u8], b: &[u8]) -> bool {
    if a.len() != b.len() {
        return false;
    }
    let mut i = 0;
    while i < a.len() {
        if a[i] != b[i] {
            return false;
        }
        i += 1;
    }
    true
}

fn symbolic_kinds(max: usize) -> (usize, [u8; 3]) {
    let n: usize = kani::any();
    kani::assume(n <= max);
    let kinds: [u8; 3] = [kani::any(), kani::any(), kani::any()];
    kani::assume(kinds[0] < 6 && kinds[1] < 6 && kinds[2] < 6);
    (n, kinds)
}

/// oracle: indices of the first response topic / first correlation data
fn oracle(n: usize, kinds: &[u8; 3]) -> (Option<u8>, Option<u8>) {
    let mut topic = None;
    let mut corr = None;
    let mut i = 0;
    while i < n {
        if kinds[i] <= 1 && topic.is_none() {
            topic = Some(kinds[i]);
        }
        if (kinds[i] == 2 || kinds[i] == 3) && corr.is_none() {
            corr = Some(kinds[i]);
        }
        i += 1;
    }
    (topic, corr)
}

#[cfg_attr(kani, kani::proof)]
#[cfg_attr(kani, kani::stub(crate::de::deserializer::MqttDeserializer::new, crate::de::deserializer::MqttDeserializer::verif_reply_no_encoded_block))]
#[cfg_attr(kani, kani::unwind(8))]
#[cfg_attr(verif_replay, test)]
fn k_response_target() {
    response_target(2);
}

/// the same for lists of up to three entries (thorough tier)
#[cfg_attr(kani, kani::proof)]
#[cfg_attr(kani, kani::stub(crate::de::deserializer::MqttDeserializer::new, crate::de::deserializer::MqttDeserializer::verif_reply_no_encoded_block))]
#[cfg_attr(kani, kani::unwind(8))]
#[cfg_attr(verif_replay, test)]
fn k_resp3_target() {
    response_target(3);
}

fn response_target(max: usize) {
    let (n, kinds) = symbolic_kinds(max);
    let props = [mk(kinds[0]), mk(kinds[1]), mk(kinds[2])];
    let msg = InboundPublish::new(
        "req",
        &[],
        Properties::from_slice(&props[..n]),
        Retain::NotRetained,
        QoS::AtMostOnce,
    );
    let (topic, corr) = oracle(n, &kinds);
    let target = msg.response_target();
    match topic {
        None => {
            assert!(target.is_none());
        }
        Some(t) => {
            let target = target.unwrap();
            let want = if t == 0 { TOPIC_A } else { TOPIC_B };
            assert!(same_bytes(target.topic.as_bytes(), want.as_bytes()));
            match corr {
                None => assert!(target.correlation_data.is_none()),
                Some(c) => {
                    let want = if c == 2 { CORR_A } else { CORR_B };
                    assert!(same_bytes(target.correlation_data.unwrap(), want));
                }
            }
        }
    }
    kani::cover!(n == max && topic.is_some() && corr.is_some() && kinds[0] >= 2);
}

/// owned copy: error exactly when topic or correlation data exceed the requested capacity, else equal
#[cfg_attr(kani, kani::proof)]
#[cfg_attr(kani, kani::stub(crate::de::deserializer::MqttDeserializer::new, crate::de::deserializer::MqttDeserializer::verif_reply_no_encoded_block))]
#[cfg_attr(kani, kani::unwind(8))]
#[cfg_attr(verif_replay, test)]
fn k_reply_owned_capacity() {
    let (n, kinds) = symbolic_kinds(2);
    let props = [mk(kinds[0]), mk(kinds[1]), mk(kinds[2])];
    let msg = InboundPublish::new(
        "req",
        &[],
        Properties::from_slice(&props[..n]),
        Retain::NotRetained,
        QoS::AtMostOnce,
    );
    let (topic, corr) = oracle(n, &kinds);
    // capacities: topic 3 (= |"a/b"| < |"other"|), correlation 2 (< |CORR_A| = 3, >= |CORR_B| = 0)
    let owned = msg.reply_owned::<3, 2>();
    match topic {
        None => assert!(matches!(owned, Ok(None))),
        Some(t) => {
            let fits = t == 0 && corr != Some(2);
            match owned {
                Ok(Some(o)) => {
                    assert!(fits);
                    assert!(same_bytes(o.topic().as_bytes(), TOPIC_A.as_bytes()));
                    match corr {
                        None => assert!(o.correlation_data().is_none()),
                        Some(_) => assert!(same_bytes(o.correlation_data().unwrap(), CORR_B)),
                    }
                }
                Ok(None) => assert!(false),
                Err(e) => {
                    assert!(!fits);
                    assert!(matches!(e, crate::ResourceError::BufferTooSmall));
                }
            }
        }
    }
    kani::cover!(topic == Some(0) && corr == Some(3));
    kani::cover!(topic == Some(1));
}

