//! Native replay of Kani counterexamples (DESIGN.md section 5): the same harness functions are
//! compiled as ordinary tests with `--cfg verif_replay`; `any()` returns the concrete values Kani
//! printed (one little-endian byte vector per primitive value, in generation order), so the real
//! code runs on the counterexample and the harness assertion is re-evaluated natively.
use std::cell::RefCell;
use std::collections::VecDeque;

thread_local! {
    static QUEUE: RefCell<Option<VecDeque<Vec<u8>>>> = RefCell::new(None);
}

fn load() -> VecDeque<Vec<u8>> {
    let raw = std::env::var("VERIF_REPLAY_VALUES").expect("VERIF_REPLAY_VALUES not set");
    // format: "1,2;255,255;0,0,0,0"  (one ';'-separated entry per value, bytes ','-separated)
    raw.split(';')
        .filter(|s| !s.trim().is_empty())
        .map(|e| e.split(',').filter(|b| !b.trim().is_empty()).map(|b| b.trim().parse::<u8>().unwrap()).collect())
        .collect()
}

fn next_bytes(n: usize) -> Vec<u8> {
    QUEUE.with(|q| {
        let mut q = q.borrow_mut();
        if q.is_none() {
            *q = Some(load());
        }
        let v = q.as_mut().unwrap().pop_front().expect("replay: counterexample exhausted");
        assert!(v.len() == n, "replay: value width mismatch ({} vs {})", v.len(), n);
        v
    })
}

pub trait Arbitrary: Sized {
    fn any() -> Self;
}
macro_rules! prim {
    ($($t:ty),*) => {$(
        impl Arbitrary for $t {
            fn any() -> Self {
                let b = next_bytes(core::mem::size_of::<$t>());
                let mut a = [0u8; core::mem::size_of::<$t>()];
                a.copy_from_slice(&b);
                <$t>::from_le_bytes(a)
            }
        }
    )*};
}
prim!(u8, u16, u32, u64, usize, i8, i16, i32, i64, isize);
impl Arbitrary for bool {
    fn any() -> Self {
        next_bytes(1)[0] != 0
    }
}
impl<A: Arbitrary, B: Arbitrary> Arbitrary for (A, B) {
    fn any() -> Self {
        let a = A::any();
        let b = B::any();
        (a, b)
    }
}
impl<A: Arbitrary, B: Arbitrary, C: Arbitrary> Arbitrary for (A, B, C) {
    fn any() -> Self {
        let a = A::any();
        let b = B::any();
        let c = C::any();
        (a, b, c)
    }
}
impl<T: Arbitrary + Copy + Default, const N: usize> Arbitrary for [T; N] {
    fn any() -> Self {
        let mut a = [T::default(); N];
        for x in a.iter_mut() {
            *x = T::any();
        }
        a
    }
}

pub fn any<T: Arbitrary>() -> T {
    T::any()
}
pub fn assume(c: bool) {
    assert!(c, "replay: a kani::assume of the harness does not hold for the recorded values");
}
#[macro_export]
macro_rules! verif_cover {
    ($($t:tt)*) => {};
}
pub use verif_cover as cover;
