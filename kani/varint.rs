//! Kani harnesses for src/varint.rs. Oracle: MQTT 5.0 section 1.5.5 (variable byte integer).
use super::*;
#[cfg(verif_replay)]
use crate::verif_replay_shim as kani;

/// reference decoder of the MQTT variable byte integer over a 4-byte window:
/// Some((value, bytes used)) only for canonical (minimal length) encodings of at most 4 bytes
fn ref_decode(b: [u8; 4], avail: usize) -> Option<(u32, usize)> {
    let mut value: u32 = 0;
    let mut i = 0;
    while i < 4 {
        if i >= avail {
            return None;
        }
        let part = (b[i] & 0x7F) as u32;
        value |= part << (7 * i);
        if b[i] & 0x80 == 0 {
            if i != 0 && part == 0 {
                return None; // overlong
            }
            return Some((value, i + 1));
        }
        i += 1;
    }
    None
}

/// decode agrees with the reference on every 4-byte window and every number of available bytes
#[cfg_attr(kani, kani::proof)]
#[cfg_attr(kani, kani::unwind(6))]
#[cfg_attr(verif_replay, test)]
fn k_varint_decode() {
    let b: [u8; 4] = kani::any();
    let avail: usize = kani::any();
    kani::assume(avail <= 4);
    let mut pos = 0usize;
    let got = read_mqtt_u32_varint(
        || {
            if pos < avail {
                let v = b[pos];
                pos += 1;
                Ok(v)
            } else {
                Err(1u8)
            }
        },
        || 2u8,
    );
    match ref_decode(b, avail) {
        Some((v, n)) => {
            assert!(got == Ok(v), "valid variable byte integer not decoded to its value");
            assert!(pos == n, "decoder consumed a different number of bytes");
        }
        None => assert!(got.is_err(), "malformed variable byte integer accepted"),
    }
    kani::cover!(got.is_ok());
}

/// encode(x) is the canonical encoding and decode(encode(x)) == x for every u32
#[cfg_attr(kani, kani::proof)]
#[cfg_attr(kani, kani::unwind(6))]
#[cfg_attr(verif_replay, test)]
fn k_varint_roundtrip() {
    let x: u32 = kani::any();
    let mut buf = VarintBuffer::new();
    let r = write_mqtt_u32_varint(x, &mut buf);
    if x > 0x0FFF_FFFF {
        assert!(r.is_err(), "value above 268435455 encoded");
        return;
    }
    assert!(r.is_ok());
    let s = buf.as_slice();
    let want_len = if x < 128 { 1 } else if x < 16384 { 2 } else if x < 2097152 { 3 } else { 4 };
    assert!(s.len() == want_len, "encoding is not minimal length");
    assert!(Varint(x).encoded_len() == want_len);
    let mut w = [0u8; 4];
    let mut i = 0;
    while i < s.len() {
        w[i] = s[i];
        i += 1;
    }
    assert!(ref_decode(w, s.len()) == Some((x, s.len())), "encoding does not decode to the value");
    let mut pos = 0usize;
    let got = read_mqtt_u32_varint(|| { let v = w[pos]; pos += 1; Ok::<u8, u8>(v) }, || 2u8);
    assert!(got == Ok(x), "decode(encode(x)) != x");
    kani::cover!(want_len == 4);
}
