//! Kani harnesses attached as a child module of src/properties.rs (sees private items).
//! Oracle: MQTT 5.0 section 2.2.2.2 / Appendix B of DESIGN.md, written out here, not taken from the crate.
use super::*;
#[cfg(verif_replay)]
use crate::verif_replay_shim as kani;

fn mk(kind: u8, a: u8, b: u16, c: u32) -> Property<'static> {
    match kind {
        0 => Property::PayloadFormatIndicator(a),
        1 => Property::MessageExpiryInterval(c),
        2 => Property::ContentType("t"),
        3 => Property::ResponseTopic("r"),
        4 => Property::CorrelationData(&[1, 2]),
        5 => Property::SubscriptionIdentifier(c),
        6 => Property::SessionExpiryInterval(c),
        7 => Property::AssignedClientIdentifier("c"),
        8 => Property::ServerKeepAlive(b),
        9 => Property::AuthenticationMethod("m"),
        10 => Property::AuthenticationData(&[3]),
        11 => Property::RequestProblemInformation(a),
        12 => Property::WillDelayInterval(c),
        13 => Property::RequestResponseInformation(a),
        14 => Property::ResponseInformation("i"),
        15 => Property::ServerReference("s"),
        16 => Property::ReasonString("x"),
        17 => Property::ReceiveMaximum(b),
        18 => Property::TopicAliasMaximum(b),
        19 => Property::TopicAlias(b),
        20 => Property::MaximumQoS(a),
        21 => Property::RetainAvailable(a),
        22 => Property::UserProperty("k", "v"),
        23 => Property::MaximumPacketSize(c),
        24 => Property::WildcardSubscriptionAvailable(a),
        25 => Property::SubscriptionIdentifierAvailable(a),
        _ => Property::SharedSubscriptionAvailable(a),
    }
}

/// MQTT 5 identifier of each kind (the order of `mk`)
const IDS: [u8; 27] = [
    0x01, 0x02, 0x03, 0x08, 0x09, 0x0B, 0x11, 0x12, 0x13, 0x15, 0x16, 0x17, 0x18, 0x19, 0x1A, 0x1C, 0x1F, 0x21, 0x22,
    0x23, 0x24, 0x25, 0x26, 0x27, 0x28, 0x29, 0x2A,
];

fn ctx(i: u8) -> PropertyContext {
    match i {
        0 => PropertyContext::Publish,
        1 => PropertyContext::Subscribe,
        2 => PropertyContext::Unsubscribe,
        3 => PropertyContext::Disconnect,
        _ => PropertyContext::Will,
    }
}

/// which identifiers a *client* may attach in which context (MQTT 5.0, 2.2.2.2)
fn oracle_allowed(c: u8, id: u8) -> bool {
    match c {
        0 => matches!(id, 0x01 | 0x02 | 0x03 | 0x08 | 0x09 | 0x23 | 0x26),
        1 => matches!(id, 0x0B | 0x26),
        2 => matches!(id, 0x26),
        // 0x1C (Server Reference) is a server-side DISCONNECT property; the crate lets a client send
        // it and that is not counted as a defect (DESIGN Appendix B)
        3 => matches!(id, 0x11 | 0x1F | 0x26 | 0x1C),
        _ => matches!(id, 0x01 | 0x02 | 0x03 | 0x08 | 0x09 | 0x18 | 0x26),
    }
}

/// value rules (MQTT 5.0): byte flags are 0/1, Maximum QoS 0..=2, Subscription Identifier 1..=268435455
fn oracle_value_ok(kind: u8, a: u8, _b: u16, c: u32) -> bool {
    match kind {
        0 | 11 | 13 | 21 | 24 | 25 | 26 => a <= 1,
        20 => a <= 2,
        5 => c >= 1 && c <= 268_435_455,
        19 => _b != 0,
        _ => true,
    }
}

#[cfg_attr(kani, kani::proof)]
#[cfg_attr(verif_replay, test)]
fn k_is_valid_for() {
    let kind: u8 = kani::any();
    kani::assume(kind < 27);
    let c: u8 = kani::any();
    kani::assume(c < 5);
    let (a, b, v): (u8, u16, u32) = (kani::any(), kani::any(), kani::any());
    let p = mk(kind, a, b, v);
    let got = p.is_valid_for(ctx(c));
    let want = oracle_value_ok(kind, a, b, v) && oracle_allowed(c, IDS[kind as usize]);
    assert!(got == want, "is_valid_for disagrees with the MQTT 5 table");
    kani::cover!(got);
    kani::cover!(!got);
}

/// the identifier the crate assigns to each kind is the MQTT 5 one
#[cfg_attr(kani, kani::proof)]
#[cfg_attr(verif_replay, test)]
fn k_property_identifier() {
    let kind: u8 = kani::any();
    kani::assume(kind < 27);
    let p = mk(kind, kani::any(), kani::any(), kani::any());
    let id: PropertyIdentifier = (&p).into();
    assert!(id as u32 == IDS[kind as usize] as u32);
    kani::cover!(true);
}

/// valid_for == every property of the slice is valid (slices of length <= 2: bounded)
#[cfg_attr(kani, kani::proof)]
#[cfg_attr(verif_replay, test)]
#[cfg_attr(kani, kani::unwind(4))]
fn k_valid_for_slice() {
    let c: u8 = kani::any();
    kani::assume(c < 5);
    let k1: u8 = kani::any();
    let k2: u8 = kani::any();
    kani::assume(k1 < 27 && k2 < 27);
    let n: usize = kani::any();
    kani::assume(n <= 2);
    let arr = [mk(k1, kani::any(), kani::any(), kani::any()), mk(k2, kani::any(), kani::any(), kani::any())];
    let props = Properties::from_slice(&arr[..n]);
    let want = (n < 1 || arr[0].is_valid_for(ctx(c))) && (n < 2 || arr[1].is_valid_for(ctx(c)));
    assert!(props.valid_for(ctx(c)) == want);
    kani::cover!(n == 2 && want);
}

/// MQTT 5.0 3.3.2.3.4: a Topic Alias value of 0 is not permitted (kept apart from k_is_valid_for so
/// that this finding cannot mask another disagreement with the table)
#[cfg_attr(kani, kani::proof)]
#[cfg_attr(verif_replay, test)]
fn k_topic_alias_nonzero() {
    let v: u16 = kani::any();
    let got = Property::TopicAlias(v).is_valid_for(PropertyContext::Publish);
    assert!(got == (v != 0), "Topic Alias 0 accepted on PUBLISH");
    kani::cover!(got);
}

/// C19/C20: a publication that carries correlation data next to a user-supplied property list
/// (`correlate(..)` + `properties(..)`, replies) is validated entry by entry like a plain list.
/// Bound: lists of at most 2 entries drawn from {User Property, Server Reference, Topic Alias 0}
/// (validity of every single kind/value/context is k_is_valid_for's job).
fn small(k: u8) -> Property<'static> {
    match k {
        0 => Property::UserProperty("k", "v"),
        1 => Property::ServerReference("s"),
        _ => Property::TopicAlias(0),
    }
}

fn valid_for_correlated(correlate_first: bool) {
    let c: u8 = kani::any();
    kani::assume(c < 5);
    let k1: u8 = kani::any();
    let k2: u8 = kani::any();
    kani::assume(k1 < 3 && k2 < 3);
    let n: usize = kani::any();
    kani::assume(n <= 2);
    let arr = [small(k1), small(k2)];
    let props = if correlate_first {
        Properties::from_slice(&[]).with_correlation(&[7, 7]).with_properties(&arr[..n])
    } else {
        Properties::from_slice(&arr[..n]).with_correlation(&[7, 7])
    };
    let corr_ok = Property::CorrelationData(&[7, 7]).is_valid_for(ctx(c));
    let want = corr_ok && (n < 1 || arr[0].is_valid_for(ctx(c))) && (n < 2 || arr[1].is_valid_for(ctx(c)));
    assert!(props.valid_for(ctx(c)) == want);
    kani::cover!(n == 2 && want);
    kani::cover!(n == 2 && corr_ok && !want);
}

#[cfg_attr(kani, kani::proof)]
#[cfg_attr(verif_replay, test)]
#[cfg_attr(kani, kani::stub(crate::de::deserializer::MqttDeserializer::new, crate::de::deserializer::MqttDeserializer::verif_no_encoded_block))]
#[cfg_attr(kani, kani::unwind(5))]
fn k_valid_for_correlated() {
    valid_for_correlated(false);
}

#[cfg_attr(kani, kani::proof)]
#[cfg_attr(verif_replay, test)]
#[cfg_attr(kani, kani::stub(crate::de::deserializer::MqttDeserializer::new, crate::de::deserializer::MqttDeserializer::verif_no_encoded_block))]
#[cfg_attr(kani, kani::unwind(5))]
fn k_valid_first_correlated() {
    valid_for_correlated(true);
}

/// the harnesses above build decoded (slice) representations only: the lazily decoding iterator arm
/// must be unreachable there; reaching it fails the harness instead of exploring the serde decoder
#[cfg(kani)]
impl<'a> MqttDeserializer<'a> {
    fn verif_no_encoded_block(_buf: &'a [u8]) -> Self {
        panic!("encoded property block reached in a decoded-list harness")
    }
}
