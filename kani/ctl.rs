//! Kani harnesses for the 9-byte control-packet encoders of src/mqtt_client/outbound.rs.
//! Oracle: DESIGN.md Appendix A.2 / MQTT 5.0 sections 3.4-3.7, 3.12 written out as byte layouts.
use super::*;
#[cfg(verif_replay)]
use crate::verif_replay_shim as kani;

fn reason(b: u8) -> ReasonCode {
    ReasonCode::from(b)
}

/// encode_control_packet == ctl_bytes for every id and every reason code, in any buffer of >= 9 bytes
#[cfg_attr(kani, kani::proof)]
#[cfg_attr(kani, kani::unwind(10))]
#[cfg_attr(verif_replay, test)]
fn k_ctl_bytes() {
    let id: u16 = kani::any();
    let rb: u8 = kani::any();
    let rc = reason(rb);
    let code: u8 = (&rc).into();
    let kind: u8 = kani::any();
    kani::assume(kind < 4);
    let (action, first) = match kind {
        0 => (ControlAction::PubAck { packet_id: id, reason: rc }, 0x40u8),
        1 => (ControlAction::PubRec { packet_id: id, reason: rc }, 0x50u8),
        2 => (ControlAction::PubComp { packet_id: id, reason: rc }, 0x70u8),
        _ => (ControlAction::PingReq, 0xC0u8),
    };
    let mut buf = [0u8; CONTROL_PACKET_LEN];
    let r = encode_control_packet(&mut buf, action);
    assert!(r.is_ok(), "control packet does not fit the 9-byte scratch buffer");
    let b = r.unwrap();
    if kind == 3 {
        assert!(b.len() == 2 && b[0] == 0xC0 && b[1] == 0x00);
    } else {
        assert!(b.len() == 5, "acknowledgement is not 5 bytes");
        assert!(b[0] == first && b[1] == 3 && b[2] == (id >> 8) as u8 && b[3] == (id & 0xff) as u8 && b[4] == code);
    }
    kani::cover!(kind == 1);
}

#[cfg_attr(kani, kani::proof)]
#[cfg_attr(kani, kani::unwind(10))]
#[cfg_attr(verif_replay, test)]
fn k_pubrel_bytes() {
    let id: u16 = kani::any();
    let rc = reason(kani::any());
    let code: u8 = (&rc).into();
    let mut buf = [0u8; CONTROL_PACKET_LEN];
    let r = encode_pubrel(&mut buf, id, rc);
    assert!(r.is_ok());
    let b = r.unwrap();
    assert!(b.len() == 5 && b[0] == 0x62 && b[1] == 3 && b[2] == (id >> 8) as u8 && b[3] == (id & 0xff) as u8 && b[4] == code);
    kani::cover!(true);
}

/// size checks: `len > max` exactly (C14)
#[cfg_attr(kani, kani::proof)]
#[cfg_attr(kani, kani::unwind(10))]
#[cfg_attr(verif_replay, test)]
fn k_ctl_size_check() {
    let mps: Option<u32> = if kani::any() { Some(kani::any()) } else { None };
    let id: u16 = kani::any();
    let rc = reason(kani::any());
    let r = check_control_packet_size(mps, ControlAction::PubAck { packet_id: id, reason: rc });
    let too_large = match mps { Some(m) => 5 > m as usize, None => false };
    assert!(r.is_err() == too_large);
    let r2 = check_control_packet_size(mps, ControlAction::PingReq);
    let too_large2 = match mps { Some(m) => 2 > m as usize, None => false };
    assert!(r2.is_err() == too_large2);
    let r3 = check_pubrel_size(mps, id, rc);
    assert!(r3.is_err() == too_large);
    kani::cover!(too_large);
}
