#!/bin/bash
# mutant_sweep.sh [ids...] : for every seeded change (seeded/<id>/patch.diff) apply it to a scratch copy of /repo and
# run the check of the property it breaks; expected: exit 1 with a VIOLATION line
ROOT=$(cd $(dirname $0)/.. && pwd)
S=/var/tmp/mutant_repo_$$
OUT=${SWEEP_OUT:-$ROOT/build/mutant_results.txt}
mkdir -p $(dirname $OUT); : > $OUT
IDS=${@:-$(ls $ROOT/seeded)}
for id in $IDS; do
  pf=$ROOT/seeded/$id/patch.diff
  [ -f $pf ] || continue
  p=${id%%-*}
  rm -rf $S; mkdir -p $S
  (cd /repo && git archive HEAD | tar -x -C $S); cp /repo/Cargo.lock $S/ 2>/dev/null
  (cd $S && git init -q . && git apply $pf) || { echo "$id APPLY-FAILED" >> $OUT; continue; }
  VERIF_REPO=$S $ROOT/check $p > /var/tmp/mutant_last_$$.log 2>&1
  rc=$?
  echo "$id $p exit=$rc $(grep -E '^(VIOLATION|UNDECIDED)' /var/tmp/mutant_last_$$.log | head -3 | cut -c1-220 | tr '\n' ' ')" >> $OUT
done
rm -rf $S /var/tmp/mutant_last_$$.log
echo DONE >> $OUT
