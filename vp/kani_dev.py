#!/usr/bin/env python3
"""kani_dev.py <harness-id-substring>... : run the named Kani harnesses on a scratch copy of /repo (developer loop)."""
import os, sys, json, subprocess, shutil, time
sys.path.insert(0, os.path.dirname(os.path.abspath(__file__)))
import kani_lane
ROOT = os.path.dirname(os.path.dirname(os.path.abspath(__file__)))
repo = os.environ.get('VERIF_REPO', '/repo')
ents = [e for e in kani_lane.registry(ROOT) if any(s in e['id'] or s == e['harness'] for s in sys.argv[1:])]
d, err = kani_lane.make_scratch(repo, ROOT, ents, 'dev')
assert not err, err
try:
    cmd = ['cargo', 'kani', '--no-default-features', '-Z', 'function-contracts', '-Z', 'stubbing', '-j', str(min(12, len(ents))), '--output-format', 'terse']
    for e in ents:
        cmd += ['--harness', e['harness']]
    env = dict(os.environ, CARGO_NET_OFFLINE='true', CARGO_TARGET_DIR=os.path.join(d, 'target'))
    t0 = time.time()
    p = subprocess.run(['bash', '-c', 'ulimit -v 20000000; exec "$@"', 'kani'] + cmd, cwd=d, env=env, capture_output=True, text=True)
    out = p.stdout + p.stderr
    per = kani_lane.parse_kani_output(out)
    for k, v in per.items():
        print(k, v['status'], v['time'], v['failed_checks'][:3])
    if not per:
        print(out[-4000:])
    print('wall %.0fs' % (time.time() - t0))
    if '-v' in sys.argv:
        print(out[-6000:])
finally:
    shutil.rmtree(d, ignore_errors=True)
