"""Minimal Rust source scanner: comment stripping that keeps line structure, brace
matching that understands strings / chars / lifetimes, and item location by path.

Nothing here interprets Rust semantics; it only finds item boundaries so that the
text between them can be copied verbatim.
"""
import re


class AnchorLost(Exception):
    pass


def blank_comments(src):
    """Return src with every comment replaced by spaces (newlines kept), so offsets and
    line numbers are unchanged. String/char literals are left untouched."""
    out = list(src)
    i, n = 0, len(src)
    while i < n:
        c = src[i]
        if src.startswith('//', i):
            j = src.find('\n', i)
            j = n if j < 0 else j
            for k in range(i, j):
                out[k] = ' '
            i = j
            continue
        if src.startswith('/*', i):
            d, j = 1, i + 2
            while j < n and d:
                if src.startswith('/*', j):
                    d += 1; j += 2
                elif src.startswith('*/', j):
                    d -= 1; j += 2
                else:
                    j += 1
            for k in range(i, j):
                if out[k] != '\n':
                    out[k] = ' '
            i = j
            continue
        j = skip_literal(src, i)
        if j != i:
            i = j
            continue
        i += 1
    return ''.join(out)


_CHAR_RE = re.compile(r"'(\\x[0-9a-fA-F]{2}|\\u\{[0-9a-fA-F_]+\}|\\.|[^\\'])'")
_RAW_RE = re.compile(r'b?r(#*)"')


def skip_literal(src, i):
    """If a string / raw string / char literal starts at i, return the index just past it,
    else return i."""
    c = src[i]
    if c == '"' or (c == 'b' and src.startswith('b"', i)):
        j = i + (2 if c == 'b' else 1)
        while src[j] != '"':
            if src[j] == '\\':
                j += 1
            j += 1
        return j + 1
    if c in 'rb':
        m = _RAW_RE.match(src, i)
        if m and (i == 0 or not (src[i - 1].isalnum() or src[i - 1] == '_')):
            close = '"' + m.group(1)
            j = src.index(close, m.end())
            return j + len(close)
    if c == "'" or (c == 'b' and src.startswith("b'", i)):
        k = i + (1 if c == 'b' else 0)
        m = _CHAR_RE.match(src, k)
        if m:
            return m.end()
    return i


PAIRS = {'{': '}', '(': ')', '[': ']'}


def match_close(src, i):
    """src[i] is one of ( [ { ; return index of the matching closer."""
    open_ = src[i]
    close = PAIRS[open_]
    d = 0
    n = len(src)
    while i < n:
        j = skip_literal(src, i)
        if j != i:
            i = j
            continue
        c = src[i]
        if c == open_:
            d += 1
        elif c == close:
            d -= 1
            if d == 0:
                return i
        i += 1
    raise AnchorLost('unbalanced ' + open_)


def find_block_start(src, i):
    """First '{' at or after i that is at paren/bracket depth 0 (skips where-clauses,
    generics containing braces never occur in this crate)."""
    d = 0
    n = len(src)
    while i < n:
        j = skip_literal(src, i)
        if j != i:
            i = j
            continue
        c = src[i]
        if c in '([':
            d += 1
        elif c in ')]':
            d -= 1
        elif c == '{' and d == 0:
            return i
        elif c == ';' and d == 0:
            return -1
        i += 1
    raise AnchorLost('no block')


_IMPL_RE = re.compile(r'^[ \t]*impl\b', re.M)


def impl_self_type(hdr):
    """Name (last path segment, no generics) of the self type of an impl header."""
    h = ' '.join(hdr.split())
    h = h[len('impl'):].lstrip()
    if h.startswith('<'):
        d = 0
        for k, c in enumerate(h):
            if c == '<':
                d += 1
            elif c == '>' and h[k - 1] != '-':
                d -= 1
                if d == 0:
                    h = h[k + 1:].lstrip()
                    break
    # trait impls: "Trait<..> for Type<..>"
    m = re.search(r'\bfor\s+(?!<)', h)
    if m:
        h = h[m.end():]
    h = h.lstrip('&').strip()
    m = re.match(r"(?:'\w+\s+)?(?:mut\s+)?((?:[A-Za-z_]\w*::)*)([A-Za-z_]\w*)", h)
    return m.group(2) if m else None


def impl_blocks(src):
    """Yield (header_text, body_start, body_end) of every impl block at top level of `src`
    (also inside `mod` blocks — depth is not checked, headers are matched textually)."""
    for m in _IMPL_RE.finditer(src):
        b = find_block_start(src, m.end())
        if b < 0:
            continue
        e = match_close(src, b)
        yield src[m.start():b], b, e


def _item_start(src, pos):
    """Extend backwards over attributes and doc comments directly above the item that starts at
    pos (pos = start of the line's first token). Returns the start offset incl. attributes."""
    return pos


_FN_HEAD = r'(?:pub(?:\([a-z:_ ]+\))?\s+)?(?:const\s+)?(?:async\s+)?(?:unsafe\s+)?fn\s+%s\b'


def find_fn(clean, type_name, fn_name, nth=0):
    """Locate fn `fn_name` (inside an impl for `type_name` if given, else at depth 0 of the
    file / of a non-impl scope). Returns (start, body_open, body_close)."""
    pat = re.compile(_FN_HEAD % re.escape(fn_name))
    cands = []
    if type_name:
        for hdr, b, e in impl_blocks(clean):
            if impl_self_type(hdr) != type_name:
                continue
            for m in pat.finditer(clean, b, e):
                if _depth_between(clean, b + 1, m.start()) == 0:
                    cands.append(m)
    else:
        impl_ranges = [(b, e) for _, b, e in impl_blocks(clean)]
        for m in pat.finditer(clean):
            if any(b < m.start() < e for b, e in impl_ranges):
                continue
            cands.append(m)
    if len(cands) <= nth:
        raise AnchorLost('fn %s%s not found' % ((type_name + '::') if type_name else '', fn_name))
    m = cands[nth]
    b = find_block_start(clean, m.end())
    if b < 0:
        raise AnchorLost('fn %s has no body' % fn_name)
    e = match_close(clean, b)
    return m.start(), b, e


def _depth_between(src, a, z):
    d = 0
    i = a
    while i < z:
        j = skip_literal(src, i)
        if j != i:
            i = j
            continue
        c = src[i]
        if c == '{':
            d += 1
        elif c == '}':
            d -= 1
        i += 1
    return d


_TYPE_HEAD = r'(?:pub(?:\([a-z:_ ]+\))?\s+)?(struct|enum)\s+%s\b'


def find_type(clean, name):
    """Locate `struct name` / `enum name`. Returns (kind, start, end_inclusive)."""
    m = re.search(_TYPE_HEAD % re.escape(name), clean)
    if not m:
        raise AnchorLost('type %s not found' % name)
    # unit / tuple struct ends with ';' before any '{'
    i = m.end()
    d = 0
    while True:
        c = clean[i]
        if c in '(<[':
            d += 1
        elif c in ')>]':
            d -= 1
        elif c == ';' and d == 0:
            return m.group(1), m.start(), i
        elif c == '{' and d == 0:
            return m.group(1), m.start(), match_close(clean, i)
        i += 1


def find_impl(clean, header_regex, nth=0):
    """Locate a whole impl block whose header matches header_regex. Returns (start, open, close)."""
    k = 0
    for m in _IMPL_RE.finditer(clean):
        b = find_block_start(clean, m.end())
        if b < 0:
            continue
        hdr = ' '.join(clean[m.start():b].split())
        if re.search(header_regex, hdr):
            if k == nth:
                return m.start(), b, match_close(clean, b)
            k += 1
    raise AnchorLost('impl /%s/ not found' % header_regex)


def find_const(clean, name):
    m = re.search(r'(?:pub(?:\([a-z:_ ]+\))?\s+)?const\s+%s\s*:' % re.escape(name), clean)
    if not m:
        raise AnchorLost('const %s not found' % name)
    e = clean.index(';', m.end())
    return m.start(), e


def line_of(src, off):
    return src.count('\n', 0, off) + 1
