"""Run Verus on a generated file and map diagnostics to obligations."""
import json
import os
import re
import subprocess
import time

VERUS = os.environ.get('VERUS', 'verus')


def run_verus(path, extra=(), timeout=1800, rlimit=None, threads=None, multiple_errors=40):
    cmd = [VERUS, '--edition', '2024', '--triggers-mode', 'silent', '--output-json', '--time',
           '--multiple-errors', str(multiple_errors), '--error-format=json', '--no-report-long-running']
    if rlimit:
        cmd += ['--rlimit', str(rlimit)]
    if threads:
        cmd += ['--num-threads', str(threads)]
    cmd += list(extra) + [path]
    t0 = time.time()
    try:
        p = subprocess.run(cmd, capture_output=True, text=True, timeout=timeout,
                           cwd=os.path.dirname(path))
    except subprocess.TimeoutExpired:
        return {'cmd': ' '.join(cmd), 'timeout': True, 'wall_s': time.time() - t0, 'diags': [], 'json': None,
                'stderr': ''}
    diags = []
    for ln in p.stderr.split('\n'):
        ln = ln.strip()
        if ln.startswith('{') and '"$message_type"' in ln:
            try:
                d = json.loads(ln)
            except ValueError:
                continue
            diags.append(d)
    js = None
    try:
        js = json.loads(p.stdout)
    except ValueError:
        m = re.search(r'\{.*\}', p.stdout, re.S)
        if m:
            try:
                js = json.loads(m.group(0))
            except ValueError:
                js = None
    return {'cmd': ' '.join(cmd), 'timeout': False, 'wall_s': time.time() - t0, 'diags': diags, 'json': js,
            'stderr': p.stderr, 'rc': p.returncode}


def classify(diags, meta):
    """Map each error diagnostic to an obligation record.

    Returns (failures, fatal) where failures is a list of dicts
    {fn, kind, clause, tags_hint, message, line, rendered} and fatal is a list of diagnostics
    that are not verification failures (rustc / Verus front-end errors => undecided)."""
    failures, fatal = [], []
    for d in diags:
        if d.get('level') != 'error':
            continue
        msg = d.get('message', '')
        if msg.startswith('aborting due to'):
            continue
        if 'must have a decreases clause' in msg or 'not supported' in msg or 'not yet support' in msg:
            # the extracted text contains a construct (e.g. a new loop) for which no contract exists
            fatal.append(d)
            continue
        if d.get('code'):
            # rustc error (E0xxx): the generated text does not compile => undecided, not a failure
            fatal.append(d)
            continue
        spans = d.get('spans', [])
        prim = [s for s in spans if s.get('is_primary')]
        sec = [s for s in spans if not s.get('is_primary')]

        def m_of(span):
            fname = str(span.get('file_name', ''))
            if not (fname.endswith('dev.rs') or 'minimq_verus' in fname):
                return None
            ln = span['line_start'] - 1
            return meta[ln] if 0 <= ln < len(meta) else None
        rec = {'message': msg, 'rendered': d.get('rendered', ''), 'line': prim[0]['line_start'] if prim else None}
        pm = m_of(prim[0]) if prim else None
        if msg.startswith('postcondition not satisfied'):
            cl = None
            for s in spans:
                if 'failed this postcondition' in (s.get('label') or ''):
                    cl = m_of(s)
            if cl is None:
                # postcondition declared outside the generated file (a vstd trait spec): attribute
                # the failure to the function whose body it was checked on
                for s in spans:
                    mm = m_of(s)
                    if mm and 'fn' in mm:
                        rec.update(fn=mm['fn'], kind='safety', clause='safety', tags=None)
                        failures.append(rec)
                        break
                else:
                    fatal.append(d)
                continue
            if cl and cl.get('part') == 'ensures':
                rec.update(fn=cl['fn'], kind='post', clause=cl['clause'], tags=cl.get('tags', []))
                failures.append(rec)
                continue
            if cl and 'tpl' in cl:
                rec.update(fn='tpl:%s:%d' % (cl['tpl'], cl['line']), kind='lemma', clause='post', tags=[])
                failures.append(rec)
                continue
        elif msg.startswith('precondition not satisfied'):
            cl = None
            for s in spans:
                if 'failed precondition' in (s.get('label') or ''):
                    cl = m_of(s)
            caller = pm
            if caller and 'fn' in caller:
                if cl and cl.get('part') == 'requires':
                    rec.update(fn=caller['fn'], kind='pre@call', clause='call[%s].%s' % (cl['fn'], cl['clause']),
                               tags=cl.get('tags', []), callee=cl['fn'])
                else:
                    # precondition of a shim / vstd function (index bounds etc.)
                    rec.update(fn=caller['fn'], kind='safety', clause='safety', tags=None)
                failures.append(rec)
                continue
            if caller and 'tpl' in caller:
                rec.update(fn='tpl:%s:%d' % (caller['tpl'], caller['line']), kind='lemma', clause='pre@call', tags=[])
                failures.append(rec)
                continue
        elif 'invariant not satisfied' in msg or 'decreases not satisfied' in msg or 'loop invariant' in msg:
            tgt = None
            for s in spans:
                mm = m_of(s)
                if mm and str(mm.get('part', '')).startswith('loop'):
                    tgt = mm
            if tgt is None:
                tgt = pm
            if tgt and 'fn' in tgt:
                part = tgt.get('part', 'loop')
                kind = 'dec' if 'decreases' in msg else 'inv'
                rec.update(fn=tgt['fn'], kind=kind, clause='%s.%s' % (part if part.startswith('loop') else 'loop', kind), tags=None)
                failures.append(rec)
                continue
        # assertion, overflow, index, unreachable, recommends ... : located by primary span
        if pm and 'fn' in pm:
            is_verif = any(k in msg for k in (
                'assertion failed', 'possible arithmetic', 'possible bit shift', 'possible division',
                'precondition not satisfied', 'postcondition not satisfied', 'unreachable',
                'index', 'decreases', 'recommendation not met', 'termination', 'panic',
                'invariant', 'bit-vector', 'assert_by', 'resolved'))
            if not is_verif:
                fatal.append(d)
                continue
            if pm.get('part') == 'await':
                rec.update(fn=pm['fn'], kind='await', clause=pm.get('clause'), tags=pm.get('tags', ['C13']))
            elif pm.get('part') == 'hint':
                rec.update(fn=pm['fn'], kind='hint', clause='hint.%s' % pm.get('clause'), tags=None)
            elif pm.get('part') == 'twin':
                rec.update(fn=pm['fn'], kind='twin', clause='twin', tags=None)
            elif str(pm.get('part', '')).startswith('loop'):
                rec.update(fn=pm['fn'], kind='inv', clause='%s.inv' % pm['part'], tags=None)
            else:
                rec.update(fn=pm['fn'], kind='safety', clause='safety', tags=None)
            failures.append(rec)
            continue
        if pm and 'tpl' in pm and any(k in msg for k in ('assertion failed', 'postcondition', 'precondition', 'decreases', 'possible arithmetic')):
            rec.update(fn='tpl:%s:%d' % (pm['tpl'], pm['line']), kind='lemma', clause='lemma', tags=[])
            failures.append(rec)
            continue
        fatal.append(d)
    return failures, fatal


def fatal_fn(d, meta):
    """Id of the extracted function in whose body (or injected contract text) a front-end error is
    located; None when it is in template text or cannot be located."""
    for s in d.get('spans', []):
        if not s.get('is_primary'):
            continue
        fname = str(s.get('file_name', ''))
        if not (fname.endswith('dev.rs') or 'minimq_verus' in fname):
            continue
        ln = s['line_start'] - 1
        m = meta[ln] if 0 <= ln < len(meta) else None
        if m and 'fn' in m and (m.get('part') in ('body', 'hint', 'await', 'sig', 'requires', 'ensures') or str(m.get('part', '')).startswith('loop')):
            return m['fn']
    return None


def functions_with_diagnostics(diags, meta):
    """Ids of all functions that have at least one error diagnostic located in them (used by the
    reachability twin: an assertion failure or an exhausted resource limit both mean that
    `false` could not be proved at the start of the body)."""
    out = set()
    for d in diags:
        if d.get('level') != 'error':
            continue
        for s in d.get('spans', []):
            fname = str(s.get('file_name', ''))
            if not (fname.endswith('dev.rs') or 'minimq_verus' in fname):
                continue
            for ln in range(s['line_start'] - 1, min(s['line_end'], len(meta))):
                m = meta[ln]
                if m and 'fn' in m:
                    out.add(m['fn'])
    return out
