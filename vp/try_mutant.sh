#!/bin/bash
# try_mutant.sh <patch> <property>... : apply the patch to /repo, run the listed checks, undo.
PATCH=$(readlink -f $1); shift
cd /verif
git -C /repo apply $PATCH || exit 2
for p in "$@"; do
  ./check $p 2>&1 | grep -E "^(VIOLATION|UNDECIDED|KNOWN|property=|NOTE)" | cut -c1-400 | sed "s/^/[$p] /"
  echo "[$p] exit=${PIPESTATUS[0]}"
done
git -C /repo checkout -- .
