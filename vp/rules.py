"""Rewrite rules applied to extracted function text (DESIGN.md section 3).

Each rule is a function  text -> (new_text, [matched snippets]).  Rules are purely
syntactic desugarings; every application is logged in the evidence.  A construct that no
rule covers is left alone and will be rejected by Verus (=> exit 2, undecided), never
patched by hand.
"""
import re
from rustscan import match_close, skip_literal

LOG_MACROS = ('trace', 'debug', 'info', 'warn', 'error')
HVEC_FIELDS = ('pending_control', 'retained', 'pending_release', 'pending_server_packet_ids')


# ---------------------------------------------------------------- helpers
def _match_back(s, i):
    """s[i] is a closer ) ] } ; return index of its opener (no literals expected backwards)."""
    close = s[i]
    open_ = {')': '(', ']': '[', '}': '{'}[close]
    d = 0
    while i >= 0:
        c = s[i]
        if c == close:
            d += 1
        elif c == open_:
            d -= 1
            if d == 0:
                return i
        i -= 1
    raise ValueError('unbalanced backwards')


_KW_STOP = ('let', 'match', 'return', 'if', 'else', 'in', 'while', 'mut', 'break')


def expr_start(s, end):
    """Start offset of the postfix-expression chain that ends just before offset `end`
    (used to find the receiver of `.method(`)."""
    i = end - 1
    while i >= 0:
        while i >= 0 and s[i] in ' \t\n':
            i -= 1
        c = s[i]
        if c in ')]':
            i = _match_back(s, i) - 1
            # a call/index is preceded by an identifier or another closer; loop continues
            continue
        if c == '?':
            i -= 1
            continue
        if c.isalnum() or c == '_':
            j = i
            while j >= 0 and (s[j].isalnum() or s[j] == '_'):
                j -= 1
            word = s[j + 1:i + 1]
            if word in _KW_STOP:
                return i + 1 + _skip_ws(s, i + 1)
            i = j
            # path or field separator keeps the chain going
            k = i
            while k >= 0 and s[k] in ' \t\n':
                k -= 1
            if k >= 0 and s[k] == '.':
                i = k - 1
                continue
            if k >= 1 and s[k - 1:k + 1] == '::':
                i = k - 2
                continue
            if k >= 0 and s[k] in '&*!':
                # unary operator belongs to the expression only if directly attached
                return j + 1
            return j + 1
        # anything else ends the chain
        return i + 1 + _skip_ws(s, i + 1)
    return 0


def _skip_ws(s, i):
    k = 0
    while i + k < len(s) and s[i + k] in ' \t\n':
        k += 1
    return k


def _closure_at(s, i):
    """s[i] == '|' opening a closure that is the sole/last argument of a call whose '(' is just
    before.  Returns (params, body, end) where end is the index of the call's closing ')'."""
    j = s.index('|', i + 1)
    params = s[i + 1:j].strip()
    k = j + 1
    d = 0
    while True:
        n = skip_literal(s, k)
        if n != k:
            k = n
            continue
        ch = s[k]
        if ch in '([{':
            d += 1
        elif ch in ')]}':
            if d == 0:
                break
            d -= 1
        k += 1
    body = s[j + 1:k].strip()
    if body.endswith(','):
        body = body[:-1].rstrip()
    if body.startswith('{') and match_close(body, 0) == len(body) - 1:
        inner = body[1:-1].strip()
        if ';' not in inner:
            body = inner
    return params, body, k


# ---------------------------------------------------------------- X1 logging
def x1_logging(s):
    hits = []
    pat = re.compile(r'\b(%s)!\s*\(' % '|'.join(LOG_MACROS))
    pos = 0
    while True:
        m = pat.search(s, pos)
        if not m:
            return s, hits
        p = s.index('(', m.start())
        e = match_close(s, p)
        k = e + 1
        while k < len(s) and s[k] in ' \t':
            k += 1
        hits.append(m.group(1) + '!')
        if k < len(s) and s[k] == ';':
            # whole statement: also swallow the line's leading blanks
            a = m.start()
            while a > 0 and s[a - 1] in ' \t':
                a -= 1
            s = s[:a] + s[k + 1:]
            pos = a
        else:
            s = s[:m.start()] + '()' + s[e + 1:]
            pos = m.start() + 2


# ---------------------------------------------------------------- X21 debug_assert!
def x21_debug_assert(s):
    hits = []
    pat = re.compile(r'\bdebug_assert!\s*\(')
    while True:
        m = pat.search(s)
        if not m:
            return s, hits
        p = s.index('(', m.start())
        e = match_close(s, p)
        args = s[p + 1:e]
        # first argument up to a top-level comma
        d = 0
        cut = len(args)
        i = 0
        while i < len(args):
            n = skip_literal(args, i)
            if n != i:
                i = n
                continue
            ch = args[i]
            if ch in '([{':
                d += 1
            elif ch in ')]}':
                d -= 1
            elif ch == ',' and d == 0:
                cut = i
                break
            i += 1
        hits.append('debug_assert!(%s)' % args[:cut].strip())
        s = s[:m.start()] + 'assert(%s)' % args[:cut].strip() + s[e + 1:]


# ---------------------------------------------------------------- X16 loops over heapless fields
_ctr = {}
# field name -> element type of heapless::Vec fields, filled from the extracted struct texts
HVEC_ELEM = {}


def _fresh(kind='i'):
    _ctr[kind] = _ctr.get(kind, 0) + 1
    return _ctr[kind]


def reset_counters():
    _ctr.clear()


def x16_hvec_loops(s):
    hits = []
    pat = re.compile(r'\bfor (\w+) in (&mut |&)?(self\.(?:\w+\.)*(\w+))(\.iter_mut\(\)|\.iter\(\))? \{')
    while True:
        m = None
        for mm in pat.finditer(s):
            if mm.group(4) in HVEC_FIELDS:
                m = mm
                break
        if not m:
            break
        var, ref, recv, field, it = m.groups()
        mut = (ref == '&mut ') or (it == '.iter_mut()')
        k = _fresh()
        b = m.end() - 1
        e = match_close(s, b)
        body = s[b + 1:e]
        if re.search(r'\bcontinue\b', body):
            raise ValueError('X16: loop body contains continue')
        acc = 'at_mut' if mut else 'at'
        new = ("let mut __i%d: usize = 0;\n        while __i%d < %s.len() {\n            let %s = %s.%s(__i%d);%s    __i%d += 1;\n        }"
               % (k, k, recv, var, recv, acc, k, body, k))
        hits.append(s[m.start():m.end()])
        s = s[:m.start()] + new + s[e + 1:]
    pat = re.compile(r'\bfor (\w+) in \[([^\]]+)\] \{')
    while True:
        m = pat.search(s)
        if not m:
            break
        k = _fresh()
        n = len(m.group(2).split(','))
        b = m.end() - 1
        e = match_close(s, b)
        body = s[b + 1:e]
        if re.search(r'\bcontinue\b', body):
            raise ValueError('X16: loop body contains continue')
        new = ("let __arr%d = [%s]; let mut __i%d: usize = 0;\n        while __i%d < %d {\n            let %s = __arr%d[__i%d];%s    __i%d += 1;\n        }"
               % (k, m.group(2), k, k, n, m.group(1), k, k, body, k))
        hits.append(s[m.start():m.end()])
        s = s[:m.start()] + new + s[e + 1:]
    return s, hits


# ---------------------------------------------------------------- X6 for &x in slice
def x6_for_ref(s):
    hits = []
    pat = re.compile(r'\bfor &(\w+) in ([\w\.]+) \{')
    while True:
        m = pat.search(s)
        if not m:
            return s, hits
        k = _fresh()
        b = m.end() - 1
        e = match_close(s, b)
        body = s[b + 1:e]
        if re.search(r'\bcontinue\b', body):
            raise ValueError('X6: loop body contains continue')
        new = ("let __s%d = %s; let mut __i%d: usize = 0;\n        while __i%d < __s%d.len() {\n            let %s = __s%d[__i%d];%s    __i%d += 1;\n        }"
               % (k, m.group(2), k, k, k, m.group(1), k, k, body, k))
        hits.append(s[m.start():m.end()])
        s = s[:m.start()] + new + s[e + 1:]


def x6b_for_slice(s, names):
    """X6b: `for x in S {` where S is a slice named by the card (`sliceiter=S`) -> index loop with `let x = &S[i];`"""
    hits = []
    for nm in names:
        pat = re.compile(r'\bfor (\w+) in %s \{' % re.escape(nm))
        while True:
            m = pat.search(s)
            if not m:
                break
            k = _fresh()
            b = m.end() - 1
            e = match_close(s, b)
            body = s[b + 1:e]
            if re.search(r'\bcontinue\b', body):
                raise ValueError('X6b: loop body contains continue')
            new = ("let __s%d = %s; let mut __i%d: usize = 0;\n        while __i%d < __s%d.len() {\n            let %s = &__s%d[__i%d];%s    __i%d += 1;\n        }"
                   % (k, nm, k, k, k, m.group(1), k, k, body, k))
            hits.append(s[m.start():m.end()])
            s = s[:m.start()] + new + s[e + 1:]
    return s, hits


# ---------------------------------------------------------------- X17 iterator searches
def _closure_plus(s, i, rt):
    params, body, end = _closure_at(s, i)
    if params == '_':
        params = '_u'
    name = params.lstrip('&').strip()
    return "|%s| -> (__r: %s) ensures __r == (%s) { %s }" % (params, rt, body, body), end


def x17_iter_search(s):
    hits = []
    for name, new in (('any', 'any_of'), ('position', 'position_of')):
        pat = re.compile(r'\s*\.iter\(\)\s*\.%s\(\s*(?=\|)' % name)
        while True:
            m = pat.search(s)
            if not m:
                break
            c, e = _closure_plus(s, m.end(), 'bool')
            hits.append('.iter().%s(..)' % name)
            s = s[:m.start()] + ".%s(%s" % (new, c) + s[e:]
    pat = re.compile(r'\s*\.iter\(\)\s*\.map\(\s*(?=\|)')
    while True:
        m = pat.search(s)
        if not m:
            break
        params, body, e = _closure_at(s, m.end())
        rest = s[e:]
        mm = re.match(r'\)\s*\.sum\(\)', rest)
        if not mm:
            raise ValueError('X17: .iter().map(..) not followed by .sum()')
        start = expr_start(s, m.start())
        recv = ''.join(s[start:m.start()].split())
        k = _fresh()
        hits.append('.iter().map(..).sum()')
        new = ("{ let mut __acc%d: usize = 0; let mut __i%d: usize = 0;\n        while __i%d < %s.len() {\n            let %s = %s.at(__i%d);\n            __acc%d = __acc%d + (%s);\n            __i%d += 1;\n        }\n        __acc%d }"
               % (k, k, k, recv, params, recv, k, k, k, body, k, k))
        s = s[:start] + new + s[e + mm.end():]
    pat = re.compile(r'\.retain\(\s*(?=\|)')
    while True:
        m = pat.search(s)
        if not m:
            break
        c, e = _closure_plus(s, m.end(), 'bool')
        hits.append('.retain(..)')
        k = _fresh('f')
        st = m.start()
        while st > 0 and s[st - 1] not in ';{}':
            st -= 1
        ws = len(s[st:]) - len(s[st:].lstrip())
        indent = s[st:st + ws]
        # the closure is bound to a name first (same evaluation order: it captures nothing mutable);
        # its parameter type is read off the struct definition of the receiver field
        fm = re.search(r'\.(\w+)\s*$', s[:m.start()])
        ety = HVEC_ELEM.get(fm.group(1)) if fm else None
        if ety is None:
            raise ValueError('X17: retain on unknown field')
        c = re.sub(r'^\|(\w+)\|', r'|\1: &%s|' % ety, c)
        s = s[:st] + indent + "let __f%d = %s;" % (k, c) + s[st:m.end()] + "__f%d" % k + s[e:]
    pat = re.compile(r'(self\s*(?:\.\s*\w+\s*)+?)\.\s*iter_mut\(\)\s*\.find\(\s*(?=\|)')
    while True:
        m = pat.search(s)
        if not m:
            break
        c, e = _closure_plus(s, m.end(), 'bool')
        recv = ''.join(m.group(1).split())
        hits.append('.iter_mut().find(..)')
        k = _fresh('p')
        # hoist the (pure) search in front of the enclosing statement so that the index is nameable
        st = m.start()
        while st > 0 and s[st - 1] not in ';{}':
            st -= 1
        ws = len(s[st:]) - len(s[st:].lstrip())
        indent = s[st:st + ws]
        s = (s[:st] + indent + "let __p%d = %s.position_of(%s);" % (k, recv, c) + s[st:m.start()]
             + "(match __p%d { Some(__q) => Some(%s.at_mut(__q)), None => None })" % (k, recv)
             + s[e + 1:])
    return s, hits


# ---------------------------------------------------------------- X8 combinators -> match
def x8_combinators(s, result_maps=()):
    hits = []
    # .map_err(|p| E)  /  .map_err(Path)
    pat = re.compile(r'\s*\.map_err\(')
    while True:
        m = pat.search(s)
        if not m:
            break
        a = m.end()
        start = expr_start(s, m.start())
        recv = s[start:m.start()]
        if s[a:].lstrip().startswith('|'):
            a2 = a + _skip_ws(s, a)
            params, body, e = _closure_at(s, a2)
            p = '_' if params in ('_', '_u') else params
            new = "(match %s { Ok(__v) => Ok(__v), Err(%s) => Err(%s) })" % (recv, p, body)
        else:
            e = match_close(s, a - 1)
            ctor = s[a:e].strip()
            new = "(match %s { Ok(__v) => Ok(__v), Err(__e) => Err(%s(__e)) })" % (recv, ctor)
        hits.append('.map_err(..)')
        s = s[:start] + new + s[e + 1:]
    # .is_some_and(|p| E)
    pat = re.compile(r'\s*\.is_some_and\(\s*(?=\|)')
    while True:
        m = pat.search(s)
        if not m:
            break
        start = expr_start(s, m.start())
        recv = s[start:m.start()]
        params, body, e = _closure_at(s, m.end())
        hits.append('.is_some_and(..)')
        s = s[:start] + "(match %s { Some(%s) => %s, None => false })" % (recv, params, body) + s[e + 1:]
    # .map(|p| E).unwrap_or(D)   and   .map(|p| E)
    pat = re.compile(r'\s*\.map\(\s*(?=\|)')
    while True:
        m = pat.search(s)
        if not m:
            break
        start = expr_start(s, m.start())
        recv = s[start:m.start()]
        params, body, e = _closure_at(s, m.end())
        rest = s[e + 1:]
        is_result = any(key in recv for key in result_maps)
        some, none_pat = ('Ok', 'Err(_)') if is_result else ('Some', 'None')
        mm = re.match(r'\s*\.unwrap_or\(', rest)
        if mm:
            p = e + 1 + mm.end() - 1
            pe = match_close(s, p)
            dflt = s[p + 1:pe].strip()
            new = "(match %s { %s(%s) => %s, %s => %s })" % (recv, some, params, body, none_pat, dflt)
            hits.append('.map(..).unwrap_or(..)')
            s = s[:start] + new + s[pe + 1:]
        else:
            if is_result:
                new = "(match %s { Ok(%s) => Ok(%s), Err(__e) => Err(__e) })" % (recv, params, body)
            else:
                new = "(match %s { Some(%s) => Some(%s), None => None })" % (recv, params, body)
            hits.append('.map(..)')
            s = s[:start] + new + s[e + 1:]
    return s, hits


# ---------------------------------------------------------------- X5 bool::then
def x5_then(s):
    hits = []
    pat = re.compile(r'\)\s*\.then\(\s*\|\|\s*')
    while True:
        m = pat.search(s)
        if not m:
            return s, hits
        close = m.start()
        open_ = _match_back(s, close)
        cond = s[open_ + 1:close]
        # closure body up to the call's closing paren
        k = m.end()
        d = 0
        while True:
            ch = s[k]
            if ch in '([{':
                d += 1
            elif ch in ')]}':
                if d == 0:
                    break
                d -= 1
            k += 1
        body = s[m.end():k].strip()
        hits.append('(..).then(|| ..)')
        s = s[:open_] + "(if %s { Some(%s) } else { None })" % (cond, body) + s[k + 1:]


# ---------------------------------------------------------------- X19 copy_within
def x19_copy_within(s):
    hits = []
    pat = re.compile(r'(self\.\w+)\s*\.copy_within\(\s*([^,]+?)\.\.([^,]+?),\s*(\w+)\s*\);')

    def sub(m):
        hits.append('copy_within')
        return "slice_copy_within(%s, %s, %s, %s);" % (m.group(1), m.group(2).strip(), m.group(3).strip(), m.group(4))
    s = pat.sub(sub, s)
    return s, hits


# ---------------------------------------------------------------- X13 bool |=
def x13_bool_or_assign(s):
    hits = []
    pat = re.compile(r'\b(\w+) \|= (self\.[^;]+);')

    def sub(m):
        hits.append(m.group(0))
        return "{ let __t = %s; %s = %s || __t; }" % (m.group(2), m.group(1), m.group(1))
    s = pat.sub(sub, s)
    return s, hits


# ---------------------------------------------------------------- X3 let-chains
def x3_let_chain(s):
    hits = []
    pat = re.compile(r'\bif let ')
    pos = 0
    while True:
        m = pat.search(s, pos)
        if not m:
            return s, hits
        # find block start at depth 0
        i = m.end()
        d = 0
        amp = -1
        while True:
            n = skip_literal(s, i)
            if n != i:
                i = n
                continue
            c = s[i]
            if c in '([':
                d += 1
            elif c in ')]':
                d -= 1
            elif c == '{' and d == 0:
                break
            elif s.startswith('&&', i) and d == 0 and amp < 0:
                amp = i
            i += 1
        if amp < 0:
            pos = m.end()
            continue
        b = i
        e = match_close(s, b)
        after = s[e + 1:].lstrip()
        if after.startswith('else'):
            raise ValueError('X3: let-chain with else')
        head = s[m.start():amp].rstrip()
        cond = s[amp + 2:b].strip()
        hits.append(' '.join(s[m.start():b].split()))
        s = s[:m.start()] + head + " { if " + cond + " " + s[b:e + 1] + " }" + s[e + 1:]
        pos = m.start() + len(head)


# ---------------------------------------------------------------- X2 transport generic
def x2_io_generic(sig, body):
    """Remove a generic parameter `NAME: Io` from the signature and monomorphise to VIo."""
    hits = []
    m = re.search(r'<([^>(]*?)\b(\w+): Io\b\s*,?\s*([^>(]*?)>', sig)
    names = []
    if m:
        name = m.group(2)
        names.append(name)
        rest = (m.group(1) + m.group(3)).strip().rstrip(',').strip()
        sig = sig[:m.start()] + ('<%s>' % rest if rest else '') + sig[m.end():]
        hits.append('%s: Io' % name)
    for name in names + ['IO']:
        for txt_name in ('sig', 'body'):
            t = sig if txt_name == 'sig' else body
            t2 = re.sub(r'\b%s::Error\b' % name, 'IoErr', t)
            if name in names:
                t2 = re.sub(r'\b%s\b' % name, 'VIo', t2)
            if t2 != t and ('%s::Error' % name) not in hits:
                hits.append('%s::Error' % name)
            if txt_name == 'sig':
                sig = t2
            else:
                body = t2
    return sig, body, hits


# ---------------------------------------------------------------- X15 mut params of async fn
def x15_async_mut_params(sig, body):
    hits = []
    if not re.search(r'\basync\s+fn\b', sig):
        return sig, body, hits
    names = re.findall(r'[(,]\s*mut (\w+)\s*:', sig)
    if not names:
        return sig, body, hits
    for n in names:
        # the parameter is renamed (x -> x__0) so that contracts can still name the argument
        # after the mutable local shadows it
        sig = re.sub(r'([(,]\s*)mut %s(\s*:)' % n, r'\1%s__0\2' % n, sig)
        hits.append('mut ' + n)
    lets = ' '.join('let mut %s = %s__0;' % (n, n) for n in names)
    body = '{ ' + lets + body[1:]
    return sig, body, hits


# ---------------------------------------------------------------- X22 `?` on Result
def x22_try_result(s):
    """`E?` -> `(match E { Ok(__v) => __v, Err(__e) => return Err(From::from(__e)) })` — the
    reference desugaring of `?` on `Result` (Verus does not know the error conversion of `?`
    itself, but does know `From::from` of the extracted/shimmed impls)."""
    hits = []
    while True:
        # find the last '?' outside literals
        pos = []
        i = 0
        n = len(s)
        while i < n:
            j = skip_literal(s, i)
            if j != i:
                i = j
                continue
            if s[i] == '?':
                pos.append(i)
            i += 1
        if not pos:
            return s, hits
        q = pos[0]
        start = expr_start(s, q)
        recv = s[start:q]
        hits.append(' '.join(recv.split())[-60:] + '?')
        s = s[:start] + "(match %s { Ok(__v) => __v, Err(__e) => return Err(From::from(__e)) })" % recv + s[q + 1:]


# ---------------------------------------------------------------- X20 iter().take(k).enumerate()
def x20_take_enumerate(s):
    hits = []
    pat = re.compile(r'\bfor \((\w+), (\w+)\) in (.+?)\.iter\(\)\.take\((\w+)\)\.enumerate\(\) \{')
    while True:
        m = pat.search(s)
        if not m:
            return s, hits
        idx, val, recv, k = m.groups()
        n = _fresh('s')
        b = m.end() - 1
        e = match_close(s, b)
        body = s[b + 1:e]
        if re.search(r'\bcontinue\b', body):
            raise ValueError('X20: loop body contains continue')
        new = ("let __s%d = &%s; let mut %s: usize = 0;\n        while %s < %s && %s < __s%d.len() {\n            let %s = __s%d[%s];%s    %s += 1;\n        }"
               % (n, recv, idx, idx, k, idx, n, val, n, idx, body, idx))
        hits.append(' '.join(s[m.start():m.end()].split()))
        s = s[:m.start()] + new + s[e + 1:]


# ---------------------------------------------------------------- X23 match on the never type
def x23_match_never(s):
    hits = []
    pat = re.compile(r'\bmatch (\w+) \{\s*\}')

    def sub(m):
        hits.append(m.group(0))
        return 'vstd::pervasive::unreached()'
    return pat.sub(sub, s), hits


# ---------------------------------------------------------------- X24 `mut self`
def x24_mut_self(sig, body):
    """fn f(mut self, ..) { B }  ->  fn f(self, ..) { let mut self__m = self; B[self := self__m] }"""
    hits = []
    if not re.search(r'\(\s*mut self\b', sig):
        return sig, body, hits
    sig = re.sub(r'\(\s*mut self\b', '(self', sig)
    body = re.sub(r'\bself\b', 'self__m', body)
    body = '{ let mut self__m = self;' + body[1:]
    hits.append('mut self')
    return sig, body, hits


# ---------------------------------------------------------------- X9 immediately-invoked closure
def x9_iife(s):
    """let NAME = (|| { BODY; Ok(()) })();   ->
       let mut NAME = Ok(()); 'iifeK: loop { BODY'; break; }
    with `return X` -> `{ NAME = X; break 'iifeK; }` and `E?` -> match with the same exit.
    Requires the closure's tail expression to be the literal `Ok(())`."""
    hits = []
    pat = re.compile(r'\blet (\w+) = \(\|\| \{')
    while True:
        m = pat.search(s)
        if not m:
            return s, hits
        name = m.group(1)
        b = m.end() - 1
        e = match_close(s, b)
        tail = s[e + 1:]
        mm = re.match(r'\)\(\);', tail)
        if not mm:
            raise ValueError('X9: closure is not immediately invoked')
        body = s[b + 1:e]
        t = body.rstrip()
        if not t.endswith('Ok(())'):
            raise ValueError('X9: closure tail is not Ok(())')
        body = t[:-len('Ok(())')]
        k = _fresh('iife')
        label = "'iife%d" % k
        # `?` inside the closure body: exit of the closure
        while True:
            pos = []
            i = 0
            while i < len(body):
                j = skip_literal(body, i)
                if j != i:
                    i = j
                    continue
                if body[i] == '?':
                    pos.append(i)
                i += 1
            if not pos:
                break
            q = pos[0]
            st = expr_start(body, q)
            recv = body[st:q]
            body = (body[:st] + "(match %s { Ok(__v) => __v, Err(__e) => { %s = Err(From::from(__e)); break %s; } })" % (recv, name, label)
                    + body[q + 1:])
        body = re.sub(r'\breturn ([^;]+);', lambda r: "{ %s = %s; break %s; }" % (name, r.group(1), label), body)
        new = "let mut %s = Ok(()); %s: loop {%s break; }" % (name, label, body)
        hits.append('let %s = (|| {..})()' % name)
        s = s[:m.start()] + new + s[e + 1 + mm.end():]


# ---------------------------------------------------------------- X10 for over a custom iterator
def x10_custom_iter(s, recvs=()):
    hits = []
    for recv in recvs:
        pat = re.compile(r'\bfor (\w+) in %s \{' % re.escape(recv))
        while True:
            m = pat.search(s)
            if not m:
                break
            k = _fresh('it')
            b = m.end() - 1
            e = match_close(s, b)
            body = s[b + 1:e]
            if re.search(r'\bcontinue\b', body):
                raise ValueError('X10: loop body contains continue')
            new = ("let mut __it%d = %s; loop { let %s = match __it%d.next() { Some(__v) => __v, None => break };%s}"
                   % (k, recv, m.group(1), k, body))
            hits.append('for %s in %s' % (m.group(1), recv))
            s = s[:m.start()] + new + s[e + 1:]
    return s, hits
