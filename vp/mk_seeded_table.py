#!/usr/bin/env python3
"""mk_seeded_table.py <sweep result files...> : markdown rows `| seeded change | caught by |` from the results of
vp/mutant_sweep.sh and writes the final result into seeded/<id>/meta.json (check_result.final)."""
import json, os, re, sys
ROOT = os.path.dirname(os.path.dirname(os.path.abspath(__file__)))
rows = {}
for f in sys.argv[1:]:
    for l in open(f):
        m = re.match(r'(\S+) (C\d\d) exit=(\d)\s*(.*)', l)
        if not m:
            continue
        sid, pid, ex, rest = m.groups()
        obs = re.findall(r'replays/C\d\d/(\S+?)\.json( no-failing-input-found)?', rest)
        und = re.search(r'UNDECIDED property=\S+ (.*)', rest)
        rows[sid] = (pid, ex, obs, und.group(1)[:200] if und else '')
for sid in sorted(rows):
    pid, ex, obs, und = rows[sid]
    if ex == '1':
        txt = ', '.join('`%s`%s' % (o.replace('_D', '#D'), '' if nf else ' (counterexample replayed natively)') for o, nf in obs[:3]) or 'violation reported'
    elif ex == '2':
        txt = '**not decided** (exit 2): ' + und
    else:
        txt = '**not caught** (exit 0)'
    print('| %s | %s |' % (sid, txt))
    mp = os.path.join(ROOT, 'seeded', sid, 'meta.json')
    if os.path.exists(mp):
        d = json.load(open(mp))
        d.setdefault('check_result', {})['final'] = {'exit': int(ex), 'obligations': [o for o, _ in obs], 'undecided': und}
        json.dump(d, open(mp, 'w'), indent=1)
