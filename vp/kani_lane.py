"""Kani lane: leaf contracts proved on the real crate.

Harness files live in /verif/kani/<name>.rs and are attached as *child modules* of the module
they test (`#[cfg(kani)] #[path = ".."] mod verif_proofs_<name>;` appended to the module file of
a scratch copy of /repo's working tree), so they see private items and nothing else of the copy
is touched.  kani/harnesses.json is the registry:

  { "id": "properties.is_valid_for.K", "harness": "k_is_valid_for", "file": "props.rs",
    "attach": "src/properties.rs", "props": ["C19"], "tier": "quick",
    "complete": true, "bound": null, "unwind": 5 }
"""
import hashlib
import json
import os
import re
import shutil
import subprocess
import time

SCRATCH_BASE = os.environ.get('VERIF_SCRATCH', '/var/tmp')


def extract_values(playback):
    """Concrete values of the first generated test that belongs to a failed *assertion* (not a cover)."""
    blocks = re.split(r'Concrete playback unit test for', playback)
    for b in blocks[1:]:
        if 'Check for `cover`' in b:
            continue
        vecs = re.findall(r'vec!\[([0-9,\s]*)\],', b)
        if vecs:
            return ';'.join(','.join(x.strip() for x in v.split(',') if x.strip()) for v in vecs)
    return None


def registry(root):
    p = os.path.join(root, 'kani', 'harnesses.json')
    if not os.path.exists(p):
        return []
    return json.load(open(p))


def tree_hash(repo, extra_files):
    h = hashlib.sha256()
    for base, dirs, files in os.walk(os.path.join(repo, 'src')):
        dirs.sort()
        for f in sorted(files):
            p = os.path.join(base, f)
            h.update(p.encode())
            h.update(open(p, 'rb').read())
    for f in ('Cargo.toml', 'Cargo.lock'):
        h.update(open(os.path.join(repo, f), 'rb').read())
    for p in extra_files:
        h.update(open(p, 'rb').read())
    return h.hexdigest()


def make_scratch(repo, root, entries, tag):
    d = os.path.join(SCRATCH_BASE, 'verif_kani_%s_%d' % (tag, os.getpid()))
    if os.path.exists(d):
        shutil.rmtree(d)
    os.makedirs(d)
    for item in ('src', 'Cargo.toml', 'Cargo.lock', 'tests', 'examples', 'README.md'):
        s = os.path.join(repo, item)
        if os.path.isdir(s):
            shutil.copytree(s, os.path.join(d, item))
        elif os.path.exists(s):
            shutil.copy(s, os.path.join(d, item))
    os.makedirs(os.path.join(d, '.cargo'), exist_ok=True)
    open(os.path.join(d, '.cargo', 'config.toml'), 'w').write('[net]\noffline = true\n')
    attach = {}
    for e in entries:
        attach.setdefault(e['attach'], set()).add(e['file'])
    for mod, files in attach.items():
        p = os.path.join(d, mod)
        if not os.path.exists(p):
            return None, 'attach point %s missing' % mod
        with open(p, 'a') as fh:
            for f in sorted(files):
                name = 'verif_proofs_' + os.path.splitext(f)[0]
                fh.write('\n#[cfg(any(kani, verif_replay))]\n#[path = "%s"]\nmod %s;\n' % (os.path.join(root, 'kani', f), name))
    with open(os.path.join(d, 'src', 'lib.rs'), 'a') as fh:
        fh.write('\n#[cfg(verif_replay)]\n#[path = "%s"]\npub mod verif_replay_shim;\n' % os.path.join(root, 'kani', 'replay_shim.rs'))
    return d, None


def parse_kani_output(out):
    """Split cargo-kani output per harness (handles the `Thread N:` prefixes of -j runs, where each
    thread prints its result block atomically)."""
    res = {}
    cur_by_thread = {}
    cur = None
    for ln in out.split('\n'):
        m = re.match(r'(?:Thread (\d+): )?Checking harness ([\w:]+)\.\.\.', ln)
        if m:
            name = m.group(2).split('::')[-1]
            res[name] = {'lines': [], 'status': None, 'time': None, 'failed_checks': []}
            if m.group(1) is not None:
                cur_by_thread[m.group(1)] = name
            else:
                cur = name
            continue
        m = re.match(r'Thread (\d+):\s*$', ln)
        if m:
            cur = cur_by_thread.get(m.group(1))
            continue
        if cur is None:
            continue
        res[cur]['lines'].append(ln)
        m = re.match(r'VERIFICATION:- (\w+)', ln)
        if m:
            res[cur]['status'] = m.group(1)
        m = re.match(r'Verification Time: ([\d.]+)s', ln)
        if m:
            res[cur]['time'] = float(m.group(1))
        m = re.match(r'Failed Checks: (.*)', ln)
        if m:
            res[cur]['failed_checks'].append(m.group(1))
    return res


def run(pid, tier, repo, root, log, pairs_for=()):
    entries = [e for e in registry(root) if (pid in e['props'] and (tier == 'thorough' or e.get('tier', 'quick') == 'quick'))
               or (set(e.get('pairs', [])) & set(pairs_for))]
    out = {'obligations': [], 'failures': [], 'bounded': [], 'trusted': [], 'summary': {}, 'cmd': ''}
    if os.environ.get('VERIF_SKIP_KANI'):
        # developer sweeps only (never set by a registered command): Verus lane alone
        entries = [e for e in entries if set(e.get('pairs', [])) & set(pairs_for)]
    if not entries:
        return out
    all_entries = list(entries)
    files = sorted({os.path.join(root, 'kani', e['file']) for e in entries})
    cache_dir = os.path.join(root, 'build', 'cache')
    os.makedirs(cache_dir, exist_ok=True)
    key = hashlib.sha256((tree_hash(repo, files) + '|' + ','.join(sorted(e['harness'] for e in entries))).encode()).hexdigest()
    cpath = os.path.join(cache_dir, 'kani_' + key + '.json')
    t0 = time.time()
    if os.path.exists(cpath) and not os.environ.get('VERIF_NOCACHE'):
        raw = json.load(open(cpath))
        raw['cached'] = True
    else:
        d, err = make_scratch(repo, root, entries, pid)
        if err:
            return {'undecided': err}
        try:
            lost_files = []
            for _attempt in range(4):
                cmd = ['cargo', 'kani', '--no-default-features', '-Z', 'function-contracts', '-Z', 'stubbing',
                       '-j', str(min(12, max(1, len(entries)))), '--output-format', 'terse']
                for e in entries:
                    cmd += ['--harness', e['harness']]
                env = dict(os.environ, CARGO_NET_OFFLINE='true', CARGO_TARGET_DIR=os.path.join(d, 'target'))
                try:
                    # address-space cap per process: a runaway CBMC must fail, not thrash the machine
                    p = subprocess.run(['bash', '-c', 'ulimit -v 20000000; exec "$@"', 'kani'] + cmd, cwd=d, env=env,
                                       capture_output=True, text=True, timeout=3000 if tier == 'thorough' else 1500)
                    raw = {'out': p.stdout + '\n' + p.stderr, 'rc': p.returncode, 'cmd': ' '.join(cmd)}
                except subprocess.TimeoutExpired as ex:
                    raw = {'out': (ex.stdout or b'').decode(errors='replace') if isinstance(ex.stdout, bytes) else (ex.stdout or ''),
                           'rc': -9, 'cmd': ' '.join(cmd), 'timeout': True}
                    break
                if raw['rc'] == 0 or parse_kani_output(raw['out']):
                    break
                # the harness crate did not build: a harness file names an item that the changed code no longer
                # has (lost anchor).  Drop the harness files that rustc blames, remember them, and retry.
                blamed = sorted({os.path.basename(m) for m in re.findall(r'error(?:\[E\d+\])?:[^\n]*\n\s*-->\s*(\S*/kani/\w+\.rs):\d+', raw['out'])}
                                & {e['file'] for e in entries})
                if not blamed:
                    break
                lost_files += blamed
                entries = [e for e in entries if e['file'] not in blamed]
                shutil.rmtree(d, ignore_errors=True)
                if not entries:
                    raw = {'out': '', 'rc': 0, 'cmd': '(every harness file of this property lost its anchor)'}
                    break
                d, err = make_scratch(repo, root, entries, pid)
                if err:
                    return {'undecided': err}
            raw['lost_files'] = lost_files
            raw['kept'] = [e['harness'] for e in entries]
            raw['wall_s'] = time.time() - t0
            raw['cached'] = False
            # failing harnesses: ask Kani for concrete values (playback) while the scratch copy exists
            per = parse_kani_output(raw['out'])
            raw['playback'] = {}
            raw['native'] = {}
            for e in entries:
                r = per.get(e['harness'])
                if r and r['status'] == 'FAILED':
                    pcmd = ['cargo', 'kani', '--no-default-features', '-Z', 'function-contracts', '-Z', 'stubbing',
                            '-Z', 'concrete-playback', '--concrete-playback=print', '--harness', e['harness']]
                    try:
                        pp = subprocess.run(pcmd, cwd=d, env=env, capture_output=True, text=True, timeout=900)
                        raw['playback'][e['harness']] = pp.stdout[-8000:]
                    except subprocess.TimeoutExpired:
                        raw['playback'][e['harness']] = 'playback timed out'
                        continue
                    vals = extract_values(raw['playback'][e['harness']])
                    if vals is None:
                        continue
                    # replay the counterexample natively: same harness, real code, no model checker
                    nenv = dict(os.environ, CARGO_NET_OFFLINE='true', CARGO_TARGET_DIR=os.path.join(d, 'target_native'),
                                RUSTFLAGS='--cfg verif_replay -A unexpected_cfgs', VERIF_REPLAY_VALUES=vals)
                    ncmd = ['cargo', 'test', '--offline', '--no-default-features', '--lib', e['harness'], '--', '--test-threads', '1']
                    try:
                        np_ = subprocess.run(ncmd, cwd=d, env=nenv, capture_output=True, text=True, timeout=900)
                        out_n = np_.stdout[-3000:] + np_.stderr[-1500:]
                        raw['native'][e['harness']] = {
                            'cmd': 'VERIF_REPLAY_VALUES=%s RUSTFLAGS="--cfg verif_replay" %s' % (vals, ' '.join(ncmd)),
                            'values': vals, 'output': out_n,
                            'confirmed': (np_.returncode != 0 and 'panicked' in out_n and 'replay:' not in out_n),
                        }
                    except subprocess.TimeoutExpired:
                        raw['native'][e['harness']] = {'values': vals, 'output': 'native replay timed out', 'confirmed': False}
            if not raw.get('timeout') and (per or raw.get('lost_files')):
                json.dump(raw, open(cpath, 'w'))
        finally:
            shutil.rmtree(d, ignore_errors=True)
    per = parse_kani_output(raw['out'])
    out['cmd'] = raw['cmd']
    if raw.get('lost_files'):
        out['lost'] = [{'id': e['id'], 'file': e['file'], 'props': e['props']} for e in all_entries if e['file'] in raw['lost_files']]
        entries = [e for e in all_entries if e['file'] not in raw['lost_files']]
        log('NOTE Kani harness file(s) %s no longer build against the changed code (an item they name is gone): %s not checked'
            % (', '.join(sorted(set(raw['lost_files']))), ', '.join(x['id'] for x in out['lost'])))
    if raw.get('timeout'):
        return {'undecided': 'cargo kani timed out', 'detail': raw['out'][-2000:]}
    if not per and raw['rc'] != 0:
        return {'undecided': 'cargo kani failed to build the harnesses', 'detail': raw['out'][-3000:]}
    tsum = 0.0
    for e in entries:
        r = per.get(e['harness'])
        ob = {'id': e['id'], 'harness': e['harness'], 'complete': e.get('complete', False), 'bound': e.get('bound'), 'pairs': e.get('pairs', [])}
        if r is None or r['status'] is None:
            return {'undecided': 'harness %s produced no verdict' % e['harness'], 'detail': raw['out'][-3000:]}
        tsum += r['time'] or 0
        txt = '\n'.join(r['lines'])
        if r['status'] == 'SUCCESSFUL':
            if re.search(r'cover.*(UNSATISFIABLE|UNREACHABLE)', txt):
                return {'undecided': 'vacuity: cover in %s is unreachable' % e['harness']}
            ob['status'] = 'discharged' if e.get('complete') else 'bounded'
            if not e.get('complete'):
                out['bounded'].append({'id': e['id'], 'bound': e.get('bound'), 'harness': e['harness']})
        elif not r['failed_checks'] or 'out of memory' in txt or 'CBMC timed out' in txt:
            return {'undecided': 'harness %s: CBMC gave no verdict (out of memory / internal error)' % e['harness'], 'detail': txt[-1500:]}
        else:
            ob['status'] = 'failed'
            pb = raw.get('playback', {}).get(e['harness'], '')
            nat = raw.get('native', {}).get(e['harness'])
            out['failures'].append({
                'id': e['id'], 'harness': e['harness'], 'failed_checks': r['failed_checks'],
                'kani_output': txt[-3000:], 'concrete_playback': pb[-3000:],
                'witness': (nat or {}).get('values', ''),
                'native_replay': nat, 'pairs': e.get('pairs', []),
                'replayed': bool(nat and nat.get('confirmed')),
            })
        ob['time_s'] = r['time']
        out['obligations'].append(ob)
    out['summary'] = {'harnesses': len(entries), 'cbmc_time_s': round(tsum, 1), 'wall_s': round(raw.get('wall_s', 0), 1),
                      'cached': raw.get('cached')}
    out['trusted'] = ['CBMC memory model; usize = 64 bit', 'kani::assume of type invariants in harnesses (listed per harness file)']
    return out


def witness_for(oid, repo, root, log):
    """Run the hand-written witness test paired with a Verus obligation, if any, against a scratch
    copy of the current tree.  Registry: replays/witness/witnesses.json {obligation: {test, file}}"""
    p = os.path.join(root, 'replays', 'witness', 'witnesses.json')
    if not os.path.exists(p):
        return None
    reg = json.load(open(p))
    w = reg.get(oid)
    if not w:
        return None
    d = os.path.join(SCRATCH_BASE, 'verif_wit_%d' % os.getpid())
    if os.path.exists(d):
        shutil.rmtree(d)
    try:
        os.makedirs(d)
        for item in ('src', 'Cargo.toml', 'Cargo.lock', 'tests', 'examples', 'README.md'):
            s = os.path.join(repo, item)
            if os.path.isdir(s):
                shutil.copytree(s, os.path.join(d, item))
            elif os.path.exists(s):
                shutil.copy(s, os.path.join(d, item))
        shutil.copy(os.path.join(root, 'replays', 'witness', w['file']), os.path.join(d, 'tests', w['file']))
        test = os.path.splitext(w['file'])[0]
        env = dict(os.environ, CARGO_NET_OFFLINE='true', CARGO_TARGET_DIR=os.path.join(d, 'target'))
        cmd = ['timeout', '600', 'cargo', 'test', '--offline', '--no-default-features', '--test', test, w['test'], '--', '--exact', '--test-threads', '1']
        pr = subprocess.run(cmd, cwd=d, env=env, capture_output=True, text=True)
        failed = pr.returncode != 0 and ('panicked' in pr.stdout or 'FAILED' in pr.stdout or pr.returncode == 124)
        return {'test': w['test'], 'file': w['file'], 'cmd': ' '.join(cmd), 'reproduced': failed,
                'output': (pr.stdout + pr.stderr)[-3000:]}
    finally:
        shutil.rmtree(d, ignore_errors=True)
