#!/bin/bash
# benign_sweep.sh [props...] : for every behaviour-preserving patch in benign/, apply it to a scratch copy of
# /repo and run the checks; every check must exit 0 (an exit 1 is a false alarm, an exit 2 an undecided)
ROOT=$(cd $(dirname $0)/.. && pwd)
PROPS=${@:-C01 C02 C03 C04 C05 C06 C07 C08 C09 C10 C11 C12 C13 C14 C15 C16 C17 C18 C19 C20}
S=/var/tmp/benign_repo_$$
OUT=${SWEEP_OUT:-$ROOT/build/benign_results.txt}
mkdir -p $(dirname $OUT); : > $OUT
for pf in $ROOT/benign/*.diff; do
  rm -rf $S; mkdir -p $S
  (cd /repo && git archive HEAD | tar -x -C $S); cp /repo/Cargo.lock $S/ 2>/dev/null
  (cd $S && git init -q . && git apply $pf) || { echo "$(basename $pf) APPLY-FAILED" >> $OUT; continue; }
  for p in $PROPS; do
    VERIF_REPO=$S $ROOT/check $p > /var/tmp/benign_last_$$.log 2>&1
    rc=$?
    echo "$(basename $pf) $p exit=$rc $(grep -E '^(VIOLATION|UNDECIDED)' /var/tmp/benign_last_$$.log | head -2 | cut -c1-300 | tr '\n' ' ')" >> $OUT
  done
done
rm -rf $S /var/tmp/benign_last_$$.log
echo DONE >> $OUT
