#!/bin/bash
# confirm_mutant.sh <worktree> <seed-id> <demo-test-name>
# Confirms, in the scratch worktree, that (a) the existing suite passes with the change, (b) the demo
# passes without it, (c) the demo fails with it; then stores patch + demo + logs under /verif/seeded/<id>/.
set -u
WT=$1; ID=$2; DEMO=$3
export CARGO_TARGET_DIR=$WT/target CARGO_NET_OFFLINE=true
cd $WT || exit 2
git checkout -q -- src tests 2>/dev/null
rm -f tests/$DEMO.rs
git apply --check mutant/patch.diff || { echo "patch does not apply"; exit 2; }
OUT=/verif/seeded/$ID; mkdir -p $OUT
git apply mutant/patch.diff
echo "== (a) suite with change" | tee $OUT/confirm.log
cargo test --workspace --no-fail-fast --offline 2>&1 | grep -E "^test result|FAILED|panicked" | tee -a $OUT/confirm.log
A=$(grep -c "test result: ok" $OUT/confirm.log); AF=$(grep -c "FAILED" $OUT/confirm.log)
cp mutant/demo.rs tests/$DEMO.rs
echo "== (c) demo with change" | tee -a $OUT/confirm.log
timeout 600 cargo test --offline --test $DEMO 2>&1 | grep -E "^test result|^test .*(ok|FAILED)|panicked|assertion" | head -8 | tee -a $OUT/confirm.log
git checkout -q -- src
echo "== (b) demo without change" | tee -a $OUT/confirm.log
timeout 600 cargo test --offline --test $DEMO 2>&1 | grep -E "^test result|^test .*(ok|FAILED)|panicked" | head -5 | tee -a $OUT/confirm.log
rm -f tests/$DEMO.rs
cp mutant/patch.diff $OUT/patch.diff; cp mutant/demo.rs $OUT/demo.rs; cp mutant/notes.md $OUT/notes.md 2>/dev/null
echo "stored in $OUT"
