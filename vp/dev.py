#!/usr/bin/env python3
"""Developer loop: generate the Verus file from the templates and run Verus on it.
usage: dev.py [--repo DIR] [--only substring] [--twin] [--fn NAME]"""
import argparse
import glob
import json
import os
import sys

sys.path.insert(0, os.path.dirname(os.path.abspath(__file__)))
import gen
import verus_run

ROOT = os.path.dirname(os.path.dirname(os.path.abspath(__file__)))


def main():
    ap = argparse.ArgumentParser()
    ap.add_argument('--repo', default='/repo')
    ap.add_argument('--twin', action='store_true')
    ap.add_argument('--fn', default=None)
    ap.add_argument('--upto', default=None, help='only templates whose name sorts <= this prefix')
    ap.add_argument('--rlimit', default=None)
    ap.add_argument('-v', action='store_true')
    ap.add_argument('--lemmas', action='store_true', help='verify only template text (lemmas); all function bodies assumed')
    ap.add_argument('--ids', default=None, help='comma separated card ids whose bodies are verified (others assumed)')
    a = ap.parse_args()
    tpls = sorted(glob.glob(os.path.join(ROOT, 'contracts', '*.vrs')))
    if a.upto:
        tpls = [t for t in tpls if os.path.basename(t)[:len(a.upto)] <= a.upto]
    only = set() if a.lemmas else (set(a.ids.split(',')) if a.ids else None)
    text, meta, info = gen.generate(a.repo, tpls, twin=a.twin, only=only)
    if only:
        known = {f['id'] for f in info['functions']}
        for x in only - known:
            print('WARNING unknown card id', x)
    text += '\nfn main() {}\n'
    os.makedirs(os.path.join(ROOT, 'build'), exist_ok=True)
    out = os.path.join(ROOT, 'build', 'dev.rs')
    open(out, 'w').write(text)
    extra = []
    if a.fn:
        extra = ['--verify-root', '--verify-function', a.fn]
    res = verus_run.run_verus(out, extra=extra, rlimit=a.rlimit)
    fails, fatal = verus_run.classify(res['diags'], meta)
    for f in fails:
        print('FAIL %s.%s [%s] line %s: %s' % (f['fn'], f['clause'], f['kind'], f['line'], f['message']))
    for d in fatal:
        print('FATAL', d.get('rendered', d.get('message'))[:1500])
    js = res['json']
    if js:
        print(js['verification-results'], 'wall %.1fs' % res['wall_s'])
    else:
        print('no json; rc', res.get('rc'), res['stderr'][-2000:])
    if '-v' in sys.argv:
        for f in fails:
            print(f['rendered'])


if __name__ == '__main__':
    main()
