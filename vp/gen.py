"""Template -> Verus file generator.

A template (contracts/*.vrs) is Verus source text with directives.  Everything that is not a
directive is copied as is (prelude: shims, spec functions, lemmas).  Directives splice in
items extracted *verbatim* from /repo's current working tree (see DESIGN.md section 3):

  //@type  <file> <Name> [derive(A, B)]         struct/enum, attributes dropped
  //@const <file> <NAME>
  //@impl  <file> /<header regex>/ [nth=k]       whole impl block verbatim (+ rules)
  //@fn    <file> <Type::name|name> [ret=r] [mode=assumed] [tags=C01,C02] [nth=k] [implre=/re/]
  //@sigsub "<old>" "<new>"                      textual substitution in the signature (logged)
  //@bodysub <RULE> "<old>" "<new>"              named, logged, anchor-based body rewrite
  //@resultmap <substring>                       X8: `.map(` on a receiver containing this is Result
  //@requires <NAME> [tags]
  //@ensures  <NAME> [tags]
  //@loop <N>                                    raw invariant/decreases text for loop ordinal N
  //@hint <NAME> before|after "<anchor>" [occ=k] raw proof text
  //@end

Clause blocks are the raw lines following the directive up to the next directive.
"""
import hashlib
import os
import re
import shlex

import rules as R
from rustscan import (AnchorLost, blank_comments, find_const, find_fn, find_impl, find_type,
                      line_of, match_close, skip_literal)


# functions found to need contract-only mode in a previous pass of the same run (id -> reason)
DEGRADED_IDS = {}
# functions whose extracted body the Verus front end rejected in a previous pass of the same run
# (a construct outside the rule set, typically introduced by a change): emitted as external_body,
# decided by a pairing Kani harness or undecided (id -> reason)
UNREADABLE_IDS = {}
# functions whose injected proof text no longer compiles against the changed body: emitted without hints / loop contracts
FORCE_DEGRADE = set()
# functions whose CONTRACT text no longer compiles against the changed signature: emitted as uncontracted external functions
NOCONTRACT_IDS = set()


class GenError(Exception):
    pass


class Clause:
    def __init__(self, kind, name, tags, text):
        self.kind, self.name, self.tags, self.text = kind, name, tags, text


class FnCard:
    def __init__(self, file, path, opts):
        self.file, self.path, self.opts = file, path, opts
        self.requires, self.ensures, self.loops, self.hints = [], [], {}, []
        self.sigsubs, self.bodysubs, self.resultmaps = [], [], []
        self.renames = []
        self.iterrecvs = []
        self.tags = [t for t in opts.get('tags', '').split(',') if t]
        self.mode = opts.get('mode', 'proved')
        self.ret = opts.get('ret')

    @property
    def id(self):
        mod = os.path.splitext(os.path.basename(self.file))[0]
        if mod == 'mod':
            mod = os.path.basename(os.path.dirname(self.file))
        name = self.path.split('::')[-1]
        base = '%s.%s' % (mod, name)
        if 'id' in self.opts:
            base = self.opts['id']
        return base


class Output:
    def __init__(self):
        self.lines = []      # text
        self.meta = []       # per line: dict or None

    def add(self, text, meta=None):
        for ln in text.split('\n'):
            self.lines.append(ln)
            self.meta.append(meta)


_src_cache = {}


def load(repo, rel):
    key = (repo, rel)
    if key not in _src_cache:
        p = os.path.join(repo, rel)
        if not os.path.exists(p):
            raise AnchorLost('file %s missing' % rel)
        src = open(p).read()
        _src_cache[key] = (src, blank_comments(src))
    return _src_cache[key]


def strip_attrs_and_vis(text):
    # attributes (possibly multi-line) and visibility qualifiers
    out = []
    i = 0
    while i < len(text):
        n = skip_literal(text, i)
        if n != i:
            out.append(text[i:n]); i = n; continue
        if text.startswith('#[', i) or text.startswith('#![', i):
            j = text.index('[', i)
            i = match_close(text, j) + 1
            continue
        out.append(text[i]); i += 1
    t = ''.join(out)
    t = re.sub(r'\bpub(\([a-z:_ ]+\))?\s+', '', t)
    return t


def squeeze(text):
    lines = [l.rstrip() for l in text.split('\n')]
    out = []
    for l in lines:
        if l == '' and (not out or out[-1] == ''):
            continue
        out.append(l)
    return '\n'.join(out)


def name_return(sig, ret):
    """`-> T` => `-> (ret: T)` for the fn's own return type (depth-0 arrow after the params)."""
    i = sig.index('(')
    e = match_close(sig, i)
    m = re.match(r'\s*->\s*', sig[e + 1:])
    if not m:
        return sig, False
    a = e + 1 + m.end()
    # type ends at depth-0 `where` or end of sig
    d = 0
    k = a
    end = len(sig)
    while k < len(sig):
        c = sig[k]
        if c in '<([':
            d += 1
        elif c in '>)]' and sig[k - 1] != '-':
            d -= 1
        elif d == 0 and re.match(r'\bwhere\b', sig[k:]) and (k == 0 or not sig[k - 1].isalnum()):
            end = k
            break
        k += 1
    ty = sig[a:end].rstrip()
    tail = sig[end:]
    return sig[:a] + '(%s: %s)' % (ret, ty) + ('\n' + tail if tail.strip() else ''), True


def loop_heads(body):
    """Offsets of the `{` opening each `while`/`loop`/`for` body, in textual order."""
    heads = []
    i = 0
    n = len(body)
    while i < n:
        k = skip_literal(body, i)
        if k != i:
            i = k; continue
        m = re.match(r"(?:'\w+\s*:\s*)?\b(while|loop|for)\b", body[i:]) if (i == 0 or not (body[i - 1].isalnum() or body[i - 1] == '_')) else None
        if m:
            j = i + m.end()
            d = 0
            while True:
                kk = skip_literal(body, j)
                if kk != j:
                    j = kk; continue
                c = body[j]
                if c in '([':
                    d += 1
                elif c in ')]':
                    d -= 1
                elif c == '{' and d == 0:
                    break
                j += 1
            heads.append(j)
            i = i + m.end()
            continue
        i += 1
    return heads


def debt_scope(text, at, armsub):
    """X25: if the await at `at` lies inside an arm of `match __debtN {` whose pattern contains `armsub`,
    return N, else None."""
    for m in re.finditer(r'match __debt(\d+) \{', text):
        ob = m.end() - 1
        if ob > at:
            break
        try:
            cb = match_close(text, ob)
        except Exception:
            continue
        if not (ob < at < cb):
            continue
        # arms at depth 1 of this block: find the last `=>` at depth 1 before `at`
        depth = 0
        i = ob + 1
        arm_start = ob + 1
        last_pat = None
        while i < at:
            n2 = skip_literal(text, i)
            if n2 != i:
                i = n2
                continue
            c = text[i]
            if c in '{([':
                depth += 1
            elif c in '})]':
                depth -= 1
                if depth == 0 and c == '}':
                    arm_start = i + 1
            elif c == ',' and depth == 0:
                arm_start = i + 1
            elif text.startswith('=>', i) and depth == 0:
                last_pat = text[arm_start:i]
                i += 2
                continue
            i += 1
        if last_pat is not None and armsub in last_pat:
            return int(m.group(1))
    return None


def insert_await_asserts(body, inv, skip=None, debt=None):
    """Rule X12: `assert(inv)` in front of every statement that contains an `.await` — dropping the
    future at that await leaves the state asserted here.  Markers are turned into tagged lines by emit_fn."""
    out = body
    pos = 0
    k = 0

    def stmt_start(text, at):
        st = at
        depth = 0
        while st > 0:
            c = text[st - 1]
            if c in ')]':
                depth += 1
            elif c in '([':
                if depth > 0:
                    depth -= 1
            elif c == '}' and depth == 0:
                # a block that ended before: statement boundary, unless it is part of the same
                # expression chain (`} else {`, `}) ...`): conservative: treat as boundary
                break
            elif c in ';{' and depth == 0:
                break
            st -= 1
        return st

    def enclosing_open_brace(text, cur):
        d = 0
        j = cur - 1
        while j >= 0:
            if text[j] == '}':
                d += 1
            elif text[j] == '{':
                if d == 0:
                    return j
                d -= 1
            j -= 1
        return -1

    while True:
        m = re.search(r'\.await\b', out[pos:])
        if not m:
            break
        at = pos + m.start()
        if skip and skip in out[max(0, at - 200):at]:
            # Side condition of skipping (X12): the skipped await may not sit in a loop that does not record its
            # progress, otherwise it is reachable from itself with unrecorded progress and no assertion in between.
            j = at
            bad = False
            for _ in range(8):
                j = enclosing_open_brace(out, j)
                if j <= 0:
                    break
                head = out[stmt_start(out, j):j]
                if re.search(r'\b(while|loop|for)\b', head):
                    cb = match_close(out, j)
                    # end of the statement that contains the await (depth of the loop body)
                    depth = 0
                    e = at
                    while e < cb:
                        n2 = skip_literal(out, e)
                        if n2 != e:
                            e = n2
                            continue
                        c = out[e]
                        if c in '{([':
                            depth += 1
                        elif c in '})]':
                            depth -= 1
                        elif c == ';' and depth <= 0:
                            break
                        e += 1
                    if 'set_written(' not in out[e:cb]:
                        bad = True
                    break
            if bad:
                st = stmt_start(out, at)
                marker = '\n\x00AWAITS:%d\x00\n' % k
                out = out[:st] + marker + out[st:]
                pos = at + len(marker) + len('.await')
                k += 1
                continue
            pos = at + len('.await')
            continue
        cur = at
        st = stmt_start(out, cur)
        for _ in range(12):
            st = stmt_start(out, cur)
            region = out[st:cur]
            in_arm = '=>' in region
            at_match_brace = False
            if st > 0 and out[st - 1] == '{':
                head = out[stmt_start(out, st - 1):st - 1]
                at_match_brace = bool(re.search(r'\bmatch\b', head))
            if in_arm or at_match_brace:
                j = enclosing_open_brace(out, cur)
                if j <= 0:
                    break
                cur = j
                continue
            break
        marker = '\n\x00AWAIT:%d\x00\n' % k
        if debt:
            dn = debt_scope(out, at, debt)
            if dn is not None:
                marker += '\x00AWAITD:%d:%d\x00\n' % (k, dn)
        out = out[:st] + marker + out[st:]
        pos = at + len(marker) + len('.await')
        k += 1
    return out, k


def apply_rules(card, sig, body, log):
    def run(rule_name, fn, *a):
        nonlocal body
        try:
            body2, hits = fn(body, *a)
        except ValueError as ex:
            raise GenError('unsupported-construct in %s: %s' % (card.id, ex))
        for h in hits:
            log.append({'rule': rule_name, 'match': ' '.join(h.split())[:120]})
        body = body2
    for (a, b) in card.renames:
        # a `use X as Y` alias of the source file, resolved textually
        sig = re.sub(r'\b%s\b' % re.escape(a), b, sig)
        body = re.sub(r'\b%s\b' % re.escape(a), b, body)
        log.append({'rule': 'X0', 'match': 'use-alias %s => %s' % (a, b)})
    if INLINABLE and card.path.split('::')[-1] not in INLINABLE:
        body = inline_helpers(body, log)
    if INLINE_CONSTS:
        for _pass in range(3):   # an initialiser may itself name a constant
            body2 = inline_consts(card, body, log)
            if body2 == body:
                break
            body = body2
    run('X1', R.x1_logging)
    for (rule, old, new) in card.bodysubs:
        if old not in body:
            raise AnchorLost('%s: bodysub anchor %r lost' % (card.id, old))
        body = body.replace(old, new)
        log.append({'rule': rule, 'match': old[:120]})
    if card.opts.get('debt'):
        # X25: `match S {` (statement position) -> `let __debtN = S; match __debtN {` so that an await inside the arm that
        # holds an undelivered inbound publish can be named by an assertion
        scrut = card.opts['debt'].split('|')[0]
        pat = 'match ' + scrut + ' {'
        n = 0
        pos = 0
        while True:
            at = body.find(pat, pos)
            if at < 0:
                break
            j = at - 1
            while j >= 0 and body[j] in ' \t\n':
                j -= 1
            if j >= 0 and body[j] not in '{;}':
                pos = at + len(pat)
                continue
            rep = 'let __debt%d = %s; match __debt%d {' % (n, scrut, n)
            body = body[:at] + rep + body[at + len(pat):]
            pos = at + len(rep)
            n += 1
        log.append({'rule': 'X25', 'match': '%d scope(s): match %s' % (n, scrut)})
    run('X21', R.x21_debug_assert)
    sig, body, hits = R.x2_io_generic(sig, body)
    for h in hits:
        log.append({'rule': 'X2', 'match': h})
    sig, body, hits = R.x15_async_mut_params(sig, body)
    for h in hits:
        log.append({'rule': 'X15', 'match': h})
    sig, body, hits = R.x24_mut_self(sig, body)
    for h in hits:
        log.append({'rule': 'X24', 'match': h})
    run('X10', R.x10_custom_iter, tuple(card.iterrecvs))
    run('X9', R.x9_iife)
    run('X3', R.x3_let_chain)
    run('X5', R.x5_then)
    run('X17', R.x17_iter_search)
    run('X8', R.x8_combinators, tuple(card.resultmaps))
    run('X20', R.x20_take_enumerate)
    run('X16', R.x16_hvec_loops)
    run('X6', R.x6_for_ref)
    if card.opts.get('sliceiter'):
        run('X6b', R.x6b_for_slice, tuple(card.opts['sliceiter'].split(',')))
    run('X19', R.x19_copy_within)
    run('X13', R.x13_bool_or_assign)
    run('X23', R.x23_match_never)
    if 'optq' not in card.opts:
        run('X22', R.x22_try_result)
    for (old, new) in card.sigsubs:
        if old not in sig:
            raise AnchorLost('%s: sigsub anchor %r lost' % (card.id, old))
        sig = sig.replace(old, new)
        log.append({'rule': 'SIG', 'match': '%s => %s' % (old, new)})
    return sig, body


def splice_loops_and_hints(card, fid, body):
    # loop contracts
    heads = loop_heads(body)
    for n in card.loops:
        if n >= len(heads):
            raise AnchorLost('%s: loop %d not found (%d loops)' % (fid, n, len(heads)))
    segs = []
    prev = 0
    for n, h in enumerate(heads):
        if n in card.loops:
            segs.append(('body', body[prev:h]))
            segs.append(('loop%d' % n, card.loops[n]))
            prev = h
    segs.append(('body', body[prev:]))
    # hints: applied on body segments by anchor
    hinted = []
    for kind, text in segs:
        hinted.append([kind, text])
    for (hname, where, anchor, occ, htext) in sorted(card.hints, key=lambda h_: h_[1] == 'tail'):
        k = 0
        done = False
        if where == 'loopend':
            # before the closing brace of loop <anchor>'s body
            n = int(anchor)
            # segment that starts with the `{` of loop n: the body segment following ('loop%d' % n)
            for si, seg in enumerate(hinted):
                if seg[0] == 'loop%d' % n:
                    tgt = hinted[si + 1]
                    p0 = tgt[1].index('{')
                    p1 = match_close(tgt[1], p0)
                    tgt[1] = tgt[1][:p1] + '\n\x00HINT:%s\x00\n' % hname + tgt[1][p1:]
                    break
            else:
                raise GenError('%s: loopend hint needs a //@loop %d contract' % (fid, n))
            continue
        if where == 'tail':
            # proof text between the last statement and the tail expression: `let __tail = <tail>; <hint> __tail`
            seg = hinted[-1]
            p1 = seg[1].rindex('}')
            p0 = hinted[0][1].index('{') if len(hinted) == 1 else -1
            depth = 0
            last = p0 + 1 if p0 >= 0 else 0
            i = last
            base = 1 if p0 >= 0 else None
            if base is None:
                # the last segment starts inside the body: depth relative to its start, statements end at depth 0 or 1
                raise GenError('%s: tail hint in a function with loop contracts is not supported' % fid)
            depth = 1
            while i < p1:
                n2 = skip_literal(seg[1], i)
                if n2 != i:
                    i = n2
                    continue
                c = seg[1][i]
                if c in '{([':
                    depth += 1
                elif c in '})]':
                    depth -= 1
                elif c == ';' and depth == 1:
                    last = i + 1
                i += 1
            tail = seg[1][last:p1]
            # hints already placed in front of the tail expression stay in front of it
            lead = re.match(r'(?:\s|\x00HINT:\w+\x00)*', tail).group(0)
            last += len(lead)
            tail = tail[len(lead):]
            mark = '\n\x00HINT:%s\x00\n' % hname
            if tail.strip() == '':
                seg[1] = seg[1][:p1] + mark + seg[1][p1:]
            else:
                seg[1] = seg[1][:last] + '\n        let __tail = ' + tail.strip() + ';' + mark + '        __tail\n' + seg[1][p1:]
            continue
        if where == 'onerr':
            # proof text on the error exit that rule X22 generated for the `?` of the statement containing the anchor
            pat = 'Err(__e) => return Err(From::from(__e))'
            for seg in hinted:
                if seg[0] != 'body':
                    continue
                pos = 0
                while True:
                    p = seg[1].find(anchor, pos)
                    if p < 0:
                        break
                    if k == occ:
                        q = seg[1].find(pat, p)
                        if q < 0:
                            raise AnchorLost('%s: hint %s: no `?` exit after anchor %r' % (fid, hname, anchor))
                        seg[1] = seg[1][:q] + 'Err(__e) => {\n\x00HINT:%s\x00\n return Err(From::from(__e)) }' % hname + seg[1][q + len(pat):]
                        done = True
                        break
                    k += 1
                    pos = p + len(anchor)
                if done:
                    break
            if not done:
                card.lost_hints = getattr(card, 'lost_hints', []) + ['%s (anchor %r)' % (hname, anchor[:60])]
                card.lost_for = getattr(card, 'lost_for', []) + getattr(card, 'hint_for', {}).get(hname, ['*'])
            continue
        if where in ('start', 'end'):
            mark = '\n\x00HINT:%s\x00\n' % hname
            if where == 'start':
                seg = hinted[0]
                p0 = seg[1].index('{')
                seg[1] = seg[1][:p0 + 1] + mark + seg[1][p0 + 1:]
            else:
                seg = hinted[-1]
                p0 = seg[1].rindex('}')
                seg[1] = seg[1][:p0] + mark + seg[1][p0:]
            continue
        for seg in hinted:
            if seg[0] != 'body':
                continue
            pos = 0
            while True:
                p = seg[1].find(anchor, pos)
                if p < 0:
                    break
                if k == occ:
                    mark = '\n\x00HINT:%s\x00\n' % hname
                    if where == 'before':
                        # go to start of line
                        ls = seg[1].rfind('\n', 0, p) + 1
                        # a hint placed before a statement also precedes that statement's await assertion
                        while True:
                            prev = seg[1][:ls].rstrip('\n')
                            mprev = re.search(r'\x00AWAIT:\d+\x00$', prev)
                            if not mprev:
                                break
                            ls = prev.rfind('\n', 0, mprev.start()) + 1
                        seg[1] = seg[1][:ls] + mark.lstrip('\n') + seg[1][ls:]
                    elif where == 'after':
                        le = seg[1].find('\n', p + len(anchor))
                        le = len(seg[1]) if le < 0 else le
                        seg[1] = seg[1][:le] + mark.rstrip('\n') + seg[1][le:]
                    else:
                        raise GenError('hint position ' + where)
                    done = True
                    break
                k += 1
                pos = p + len(anchor)
            if done:
                break
        if not done:
            # the statement this proof step was attached to is gone: drop this step only; if the proof still goes
            # through the function is decided as usual, otherwise it is treated as restructured
            card.lost_hints = getattr(card, 'lost_hints', []) + ['%s (anchor %r)' % (hname, anchor[:60])]
            card.lost_for = getattr(card, 'lost_for', []) + getattr(card, 'hint_for', {}).get(hname, ['*'])

    return hinted


def emit_fn(card, repo, out, info, twin=False, assumed_here=False):
    src, clean = load(repo, card.file)
    parts = card.path.split('::')
    tname = parts[0] if len(parts) == 2 else None
    fname = parts[-1]
    nth = int(card.opts.get('nth', 0))
    if 'implre' in card.opts:
        s0, b0, e0 = find_impl(clean, card.opts['implre'].strip('/'))
        sub = clean[b0:e0 + 1]
        m = re.search(R'(?:pub(?:\([a-z:_ ]+\))?\s+)?(?:const\s+)?(?:async\s+)?fn\s+%s\b' % re.escape(fname), sub)
        if not m:
            raise AnchorLost('fn %s not in impl %s' % (fname, card.opts['implre']))
        start = b0 + m.start()
        from rustscan import find_block_start
        bopen = find_block_start(clean, b0 + m.end())
        bclose = match_close(clean, bopen)
    else:
        try:
            start, bopen, bclose = find_fn(clean, tname, fname, nth)
        except AnchorLost:
            if card.mode == 'assumed' or 'required' in card.opts:
                raise
            # the function no longer exists (removed / inlined by a refactoring): nothing to extract.
            # Callers that still name it will not compile (=> undecided); otherwise its former callers
            # carry the property through their own contracts.
            info.setdefault('missing', []).append({'id': card.id, 'path': card.path, 'file': card.file, 'tags': card.tags})
            return
    raw_item = src[start:bclose + 1]
    sig = strip_attrs_and_vis(clean[start:bopen]).strip()
    sig = re.sub(r'^const\s+', '', sig)
    body = clean[bopen:bclose + 1]
    R.reset_counters()
    log = []
    try:
        sig, body = apply_rules(card, sig, body, log)
    except (AnchorLost, GenError) as ex:
        if card.mode == 'assumed':
            raise
        UNREADABLE_IDS[card.id] = 'rewrite rules: %s' % ex
        card.hints = []
        card.loops = {}
    body = squeeze(body)
    if card.opts.get('awaitinv') and card.id not in UNREADABLE_IDS:
        body, n_aw = insert_await_asserts(body, card.opts['awaitinv'], card.opts.get('awaitskip'),
                                          card.opts['debt'].split('|')[1] if card.opts.get('debt') else None)
        log.append({'rule': 'X12', 'match': '%d await points: assert(%s)' % (n_aw, card.opts['awaitinv'])})
    if card.opts.get('rename'):
        sig = re.sub(r'\bfn\s+%s\b' % re.escape(fname), 'fn ' + card.opts['rename'], sig, count=1)
        log.append({'rule': 'PROBE', 'match': 'emitted as %s (uncalled copy carrying a property-level clause)' % card.opts['rename']})
    if card.ret:
        sig, ok = name_return(sig, card.ret)
        if not ok:
            raise GenError('%s: ret= given but fn has no return type' % card.id)
    rec = {
        'id': card.id, 'file': card.file, 'path': card.path, 'mode': card.mode,
        'src_line_start': line_of(src, start), 'src_line_end': line_of(src, bclose),
        'src_sha256': hashlib.sha256(raw_item.encode()).hexdigest(),
        'rules_applied': log, 'tags': card.tags,
        'clauses': [], 'loops': sorted(card.loops), 'hints': [h[0] for h in card.hints],
    }
    fid = card.id
    # loop contracts and hints are keyed to the structure of the body.  If the body was restructured
    # so that they no longer line up, the function is emitted in "contract-only" (degraded) mode:
    # signature contract kept, loop contracts and hints dropped; check decides it with the paired Kani
    # harness or reports it undecided (never a violation on a failed proof alone).
    degraded = None
    try:
        if fid in FORCE_DEGRADE:
            raise AnchorLost('%s: the proof script (hints / loop contracts) does not compile against the changed body' % fid)
        hinted = splice_loops_and_hints(card, fid, body)
    except AnchorLost as ex:
        degraded = str(ex)
        hinted = [['body', body]]
        card_hints_saved = card.hints
        card.hints = []
    if degraded is None and getattr(card, 'lost_hints', None):
        degraded = 'proof step(s) without anchor dropped: ' + ', '.join(card.lost_hints)
        rec['lost_for'] = sorted(set(getattr(card, 'lost_for', ['*'])))
    rec['degraded'] = degraded
    if degraded:
        DEGRADED_IDS[fid] = degraded
    if fid in UNREADABLE_IDS and card.mode != 'assumed':
        rec['degraded'] = degraded = 'body outside the rule set: ' + UNREADABLE_IDS[fid]
        rec['unreadable'] = True
        assumed_here = True
    if card.mode == 'assumed' or assumed_here:
        out.add('#[verifier::external_body]', {'fn': fid, 'part': 'attr'})
    if not twin and 'nospinoff' not in card.opts:
        out.add('#[verifier::spinoff_prover]', {'fn': fid, 'part': 'attr'})
    if 'nodecreases' in card.opts or DEGRADED_IDS.get(fid):
        out.add('#[verifier::exec_allows_no_decreases_clause]', {'fn': fid, 'part': 'attr'})
    if not twin:
        # a generous default: a proof that no longer goes through should end as a named failed obligation, not in the
        # solver's resource limit (which is reported as undecided)
        out.add('#[verifier::rlimit(%s)]' % card.opts.get('rlimit', '40'), {'fn': fid, 'part': 'attr'})
    out.add(sig, {'fn': fid, 'part': 'sig'})
    if fid in NOCONTRACT_IDS:
        rec['nocontract'] = True
        rec['lost_clauses'] = [{'kind': c.kind, 'name': c.name, 'tags': c.tags} for c in card.requires + card.ensures]
        out.add('{ unimplemented!() }', {'fn': fid, 'part': 'body'})
        rec['out_sha256'] = None
        rec['in_this_shard'] = False
        info['functions'].append(rec)
        return
    if card.requires:
        out.add('    requires', {'fn': fid, 'part': 'sig'})
        for c in card.requires:
            out.add(c.text.rstrip().rstrip(',') + ',', {'fn': fid, 'part': 'requires', 'clause': c.name, 'tags': c.tags})
            rec['clauses'].append({'kind': 'requires', 'name': c.name, 'tags': c.tags, 'text': ' '.join(c.text.split())})
    if card.ensures:
        out.add('    ensures', {'fn': fid, 'part': 'sig'})
        for c in card.ensures:
            out.add(c.text.rstrip().rstrip(',') + ',', {'fn': fid, 'part': 'ensures', 'clause': c.name, 'tags': c.tags})
            rec['clauses'].append({'kind': 'ensures', 'name': c.name, 'tags': c.tags, 'text': ' '.join(c.text.split())})
    if card.mode == 'assumed' or assumed_here:
        out.add('{ unimplemented!() }', {'fn': fid, 'part': 'body'})
        rec['out_sha256'] = None
        rec['in_this_shard'] = False
        info['functions'].append(rec)
        return
    rec['in_this_shard'] = True
    hint_text = {h[0]: h[4] for h in card.hints}
    first_body_line = len(out.lines)
    if card.opts.get('reveal'):
        rv = ' '.join('reveal(%s);' % x for x in card.opts['reveal'].split(','))
        p0 = hinted[0][1].index('{')
        hinted[0][1] = hinted[0][1][:p0 + 1] + ' proof { ' + rv + ' } ' + hinted[0][1][p0 + 1:]
        # loop bodies are verified as separate queries: reveal there as well
        for si in range(1, len(hinted)):
            if hinted[si][0] == 'body' and hinted[si - 1][0].startswith('loop'):
                p0 = hinted[si][1].index('{')
                hinted[si][1] = hinted[si][1][:p0 + 1] + ' proof { ' + rv + ' } ' + hinted[si][1][p0 + 1:]
    body_hash = hashlib.sha256()
    for kind, text in hinted:
        if kind == 'body':
            for piece in re.split(r'(\x00HINT:\w+\x00|\x00AWAIT:\d+\x00|\x00AWAITD:\d+:\d+\x00|\x00AWAITS:\d+\x00)', text):
                mm = re.match(r'\x00HINT:(\w+)\x00', piece)
                ma = re.match(r'\x00AWAIT:(\d+)\x00', piece)
                md = re.match(r'\x00AWAITD:(\d+):(\d+)\x00', piece)
                ms = re.match(r'\x00AWAITS:(\d+)\x00', piece)
                if ms:
                    # a write await (not assertable: the packet bytes are borrowed) inside a loop that does not call
                    # set_written: the bytes accepted in one iteration are unrecorded at the next iteration's await
                    out.add('        assert(false); // write progress held only in a local across an await',
                            {'fn': fid, 'part': 'await', 'clause': 'await%s.debt' % ms.group(1), 'tags': ['C13', 'C01', 'C15']})
                    rec.setdefault('awaits', []).append('await%s.debt' % ms.group(1))
                elif md:
                    # X25: an await while an inbound publish that was already taken from the reader lives only in a local
                    out.add('        assert(!(__debt%s is %s));' % (md.group(2), card.opts['debt'].split('|')[2]),
                            {'fn': fid, 'part': 'await', 'clause': 'await%s.debt' % md.group(1), 'tags': ['C13', 'C04']})
                    rec.setdefault('awaits', []).append('await%s.debt' % md.group(1))
                elif ma:
                    atags = ['C13', 'C01'] if re.search(r'\b[spw]inv\(', card.opts['awaitinv']) else ['C13']
                    rec['await_tags'] = atags
                    out.add('        assert(%s);' % card.opts['awaitinv'], {'fn': fid, 'part': 'await', 'clause': 'await%s' % ma.group(1), 'tags': atags})
                    rec.setdefault('awaits', []).append('await%s' % ma.group(1))
                elif mm:
                    out.add(hint_text[mm.group(1)].rstrip(), {'fn': fid, 'part': 'hint', 'clause': mm.group(1)})
                else:
                    piece = piece.strip('\n') if piece.strip() == '' else piece
                    if piece == '':
                        continue
                    body_hash.update(piece.encode())
                    out.add(piece.rstrip('\n'), {'fn': fid, 'part': 'body'})
        else:
            out.add(text.rstrip(), {'fn': fid, 'part': kind})
    if twin:
        # reachability twin: with `assert(false)` as the first statement the function must FAIL
        # (it can only pass if the preconditions are contradictory)
        k = first_body_line
        ln = out.lines[k]
        idx = ln.index('{')
        out.lines[k] = ln[:idx + 1] + ' proof { assert(false); } ' + ln[idx + 1:]
        out.meta[k] = {'fn': fid, 'part': 'twin'}
    rec['out_sha256'] = body_hash.hexdigest()
    info['functions'].append(rec)


def pubify(text, kind):
    """`pub` on the item and on every named struct field (trait-impl specs are public in Verus,
    so everything they mention must be visible; visibility has no run-time meaning)."""
    text = 'pub ' + text.lstrip()
    if kind != 'struct' or '{' not in text:
        if kind == 'struct' and '(' in text:
            # tuple struct: pub on each positional field
            i = text.index('(')
            e = match_close(text, i)
            inner = text[i + 1:e]
            parts, d, cur = [], 0, ''
            for c in inner:
                if c in '<([':
                    d += 1
                elif c in '>)]':
                    d -= 1
                if c == ',' and d == 0:
                    parts.append(cur); cur = ''
                else:
                    cur += c
            if cur.strip():
                parts.append(cur)
            text = text[:i + 1] + ', '.join('pub ' + p.strip() for p in parts) + text[e:]
        return text
    b = text.index('{')
    out = [text[:b + 1]]
    i = b + 1
    d_angle = 0
    d_paren = 0
    expect_field = True
    while i < len(text):
        c = text[i]
        if expect_field:
            m = re.match(r'\s*([A-Za-z_]\w*)\s*:(?!:)', text[i:])
            if m:
                out.append(text[i:i + m.start(1)] + 'pub ' + text[i + m.start(1):i + m.end()])
                i += m.end()
                expect_field = False
                continue
        if c == '<':
            d_angle += 1
        elif c == '>' and text[i - 1] != '-':
            d_angle -= 1
        elif c in '([':
            d_paren += 1
        elif c in ')]':
            d_paren -= 1
        elif c == ',' and d_angle == 0 and d_paren == 0:
            expect_field = True
        out.append(c)
        i += 1
    return ''.join(out)


def emit_type(repo, file, name, derive, out, info, codes=None, rename=None, subs=None):
    src, clean = load(repo, file)
    kind, s, e = find_type(clean, name)
    text = strip_attrs_and_vis(clean[s:e + 1])
    text = squeeze(text)
    text = '\n'.join(l for l in text.split('\n') if l.strip())
    for pair in (subs.split(';') if subs else []):
        a, b = pair.split(':', 1)
        if re.fullmatch(r'\w+', a):
            text = re.sub(r'\b%s\b' % re.escape(a), b, text)
        else:
            if a not in text:
                raise AnchorLost('type %s: substitution anchor %r lost' % (name, a))
            text = text.replace(a, b)
    text = pubify(text, kind)
    if rename:
        text = re.sub(r'\b(struct|enum)\s+%s\b' % re.escape(name), r'\1 ' + rename, text, count=1)
    pairs = re.findall(r'^\s*(\w+)\s*=\s*(0x[0-9a-fA-F]+|\d+)\s*,', text, re.M)
    if pairs:
        # the verus! macro does not carry explicit discriminants: drop them, and (codes=NAME)
        # generate the variant -> code table as a spec function from the same text
        text = re.sub(r'^(\s*\w+)\s*=\s*(0x[0-9a-fA-F]+|\d+)\s*,', r'\1,', text, flags=re.M)
    if derive:
        out.add('#[derive(%s)]' % derive, None)
    for fm in re.finditer(r'\b(\w+)\s*:\s*Vec<\s*(\w+)\s*,', text):
        R.HVEC_ELEM[fm.group(1)] = fm.group(2)
    out.add(text, {'type': name})
    if codes:
        if not pairs:
            raise AnchorLost('type %s has no explicit discriminants' % name)
        arms = ' '.join('%s::%s => %su8,' % (name, v, c) for v, c in pairs)
        out.add('pub open spec fn %s(x: %s) -> u8 { match x { %s } }' % (codes, name, arms), {'type': name})
    info['types'].append({'name': name, 'file': file, 'line': line_of(src, s),
                          'src_sha256': hashlib.sha256(src[s:e + 1].encode()).hexdigest(), 'derive': derive,
                          'as': rename})


def emit_const(repo, file, name, out, info):
    src, clean = load(repo, file)
    s, e = find_const(clean, name)
    out.add('pub ' + strip_attrs_and_vis(clean[s:e + 1]).lstrip(), {'const': name})
    info['consts'].append({'name': name, 'file': file, 'line': line_of(src, s)})


_DIR = re.compile(r'^\s*//@(\w+)\s*(.*)$')


def parse_opts(tokens):
    opts = {}
    for t in tokens:
        if '=' in t:
            k, v = t.split('=', 1)
            opts[k] = v
        else:
            opts[t] = True
    return opts


AUTO_IMPL_HEADERS = {
    'SendState': 'impl SendState', 'Outbound': "impl<'a> Outbound<'a>", 'Connection': "impl<'a, 'buf> Connection<'a, 'buf>",
    'Session': "impl<'buf> Session<'buf>", 'SessionData': "impl<'a> SessionData<'a>", 'RuntimeState': 'impl RuntimeState',
    'PacketReader': "impl<'a> PacketReader<'a>", 'Properties': "impl<'a> Properties<'a>", 'ReasonCode': 'impl ReasonCode',
    'Disconnect': "impl<'a> Disconnect<'a>", 'Publication': "impl<'a, P> Publication<'a, P>", 'Op': 'impl Op',
}


def find_auto(repo, tname, fname):
    """Locate `fn fname` in an inherent impl of `tname` somewhere under src/. Returns the relative file or None."""
    if tname and tname not in AUTO_IMPL_HEADERS:
        return None
    for base, dirs, files in os.walk(os.path.join(repo, 'src')):
        dirs.sort()
        for f in sorted(files):
            if not f.endswith('.rs'):
                continue
            rel = os.path.relpath(os.path.join(base, f), repo)
            try:
                src, clean = load(repo, rel)
                find_fn(clean, tname or None, fname)
                return rel
            except AnchorLost:
                continue
    return None


def can_auto_extract(repo, tname, fname):
    return find_auto(repo, tname, fname) is not None


# X27: named constants introduced by a refactoring (no //@const directive) are replaced by their initialiser
INLINE_CONSTS = {}


def find_const_expr(repo, tname, cname):
    """Initialiser of `const cname: T = EXPR;` (inside an inherent impl of tname, or at module level if tname == '')."""
    for base, dirs, files in os.walk(os.path.join(repo, 'src')):
        dirs.sort()
        for f in sorted(files):
            if not f.endswith('.rs'):
                continue
            rel = os.path.relpath(os.path.join(base, f), repo)
            src, clean = load(repo, rel)
            for m in re.finditer(r'\bconst\s+%s\s*:\s*([^=;]+)=\s*([^;]+);' % re.escape(cname), clean):
                depth = 0
                # depth 0 = module level; inside `impl tname` = depth 1
                inside = None
                from rustscan import impl_blocks, impl_self_type
                for hdr, b, e in impl_blocks(clean):
                    if b < m.start() < e:
                        inside = impl_self_type(hdr)
                if (tname and inside == tname) or (not tname and inside is None):
                    expr = src[m.start(2):m.end(2)].strip()
                    if tname:
                        expr = re.sub(r'\bSelf\b', tname, expr)
                    if re.search(r'[{;]', expr) and not re.fullmatch(r'[\w:]+\s*\{[^{};]*\}', expr):
                        return None
                    return expr
    return None


def can_inline_const(repo, tname, cname):
    return find_const_expr(repo, tname, cname) is not None


def inline_consts(card, body, log):
    own = card.path.split('::')[0] if '::' in card.path else None
    for (tname, cname), expr in INLINE_CONSTS.items():
        pats = []
        if tname:
            pats.append(r'\b%s::%s\b' % (re.escape(tname), re.escape(cname)))
            if own == tname:
                pats.append(r'\bSelf::%s\b' % re.escape(cname))
        else:
            pats.append(r'(?<![\w:\.])%s\b(?!\s*[:(])' % re.escape(cname))
        for p_ in pats:
            body, n = re.subn(p_, '(' + expr + ')', body)
            if n:
                log.append({'rule': 'X27', 'match': 'constant %s%s := %s (%d uses)' % ((tname + '::') if tname else '', cname, expr[:60], n)})
    return body


# X26: helpers introduced by a refactoring (no card) that are plain straight-line code are inlined at their call
# sites, so that the callers are verified against their own contracts as before.  name -> (params, body)
INLINABLE = {}


def build_inlinable(repo, auto):
    INLINABLE.clear()
    for (tname, fname) in auto:
        rel = find_auto(repo, tname, fname)
        if rel is None:
            continue
        src, clean = load(repo, rel)
        start, bopen, bclose = find_fn(clean, tname or None, fname)
        head = clean[start:bopen]
        body = src[bopen + 1:bclose]
        cbody = clean[bopen + 1:bclose]
        fi = head.index(fname)
        pi = head.index('(', fi)
        if re.search(r'\basync\b', head) or '<' in head[fi + len(fname):pi]:
            continue
        # only plain straight-line code: no early exit, no loop, no closure or iterator chain (those need rewrite rules
        # that are keyed to the receiver type of the helper's own impl)
        if re.search(r'\breturn\b|\?|\.await\b|\b(loop|while|for)\b|\bSelf\b|\||\.iter(_mut)?\(\)', cbody):
            continue
        pm = head[pi + 1:]
        depth = 0
        end = 0
        for i_, c in enumerate(pm):
            if c == '(':
                depth += 1
            elif c == ')':
                if depth == 0:
                    end = i_
                    break
                depth -= 1
        plist = [x.strip() for x in pm[:end].split(',') if x.strip()]
        if tname:
            if not plist or not re.fullmatch(r'&?\s*(mut\s+)?self', plist[0]):
                continue
            rest = plist[1:]
        else:
            rest = plist
        names = []
        ok = True
        for prm in rest:
            mm = re.fullmatch(r'(mut\s+)?(\w+)\s*:\s*([^,]+)', prm)
            if not mm:
                ok = False
                break
            ty = mm.group(3).strip()
            # a reference argument is re-borrowed by a call, not moved
            mode = '&mut *' if re.match(r'&\s*(\'\w+\s+)?mut\b', ty) else ('&*' if ty.startswith('&') else '')
            names.append((mm.group(2), mode))
        if not ok:
            continue
        INLINABLE[fname] = (names, blank_logging(body), bool(tname))


def blank_logging(body):
    return body


def inline_helpers(body, log):
    """Rule X26: `RECV.helper(ARGS)` -> `{ let __aK = ARGK; ..; BODY[self := RECV] }` for every helper of INLINABLE."""
    for name, (params, hbody, is_method) in INLINABLE.items():
        pat = re.compile((r'((?:\w+\.)*\w+)\.%s\(' if is_method else r'(?<![\w\.:])()%s\(') % re.escape(name))
        pos = 0
        while True:
            m = pat.search(body, pos)
            if not m:
                break
            recv = m.group(1)
            a0 = m.end()
            depth = 0
            i_ = a0
            args = []
            cur = a0
            while i_ < len(body):
                n2 = skip_literal(body, i_)
                if n2 != i_:
                    i_ = n2
                    continue
                c = body[i_]
                if c in '([{':
                    depth += 1
                elif c in ')]}':
                    if depth == 0:
                        break
                    depth -= 1
                elif c == ',' and depth == 0:
                    args.append(body[cur:i_].strip())
                    cur = i_ + 1
                i_ += 1
            last = body[cur:i_].strip()
            if last:
                args.append(last)
            if len(args) != len(params):
                pos = m.end()
                continue
            hb = re.sub(r'\bself\b', recv, hbody) if is_method else hbody
            lets = ''
            for k_, ((pn, mode), av) in enumerate(zip(params, args)):
                hb = re.sub(r'\b%s\b' % re.escape(pn), '__a%d' % k_, hb)
                lets += ('let __a%d = %s(%s); ' % (k_, mode, av)) if mode else ('let __a%d = %s; ' % (k_, av))
            rep = '{ ' + lets + hb.strip() + ' }'
            body = body[:m.start()] + rep + body[i_ + 1:]
            pos = m.start() + len(rep)
            log.append({'rule': 'X26', 'match': 'inlined helper %s at %s.%s(..)' % (name, recv, name)})
    return body


def generate(repo, template_paths, twin=False, only=None, auto=()):
    """Returns (text, meta_per_line, info)."""
    out = Output()
    info = {'functions': [], 'types': [], 'consts': [], 'lemmas': [], 'trusted': []}
    INLINE_CONSTS.clear()
    # core::num::NonZeroU16::MIN (the shim has no associated constants): the value 1
    INLINE_CONSTS[('NonZeroU16', 'MIN')] = 'NonZeroU16::new(1).unwrap()'
    for (tn_, cn_) in [a_ for a_ in auto if str(a_[0]).startswith('const:')]:
        ex_ = find_const_expr(repo, tn_[6:], cn_)
        if ex_ is not None:
            INLINE_CONSTS[(tn_[6:], cn_)] = ex_
    auto = [a_ for a_ in auto if not str(a_[0]).startswith('const:')]
    build_inlinable(repo, auto)
    for tp in template_paths:
        lines = open(tp).read().split('\n')
        i = 0
        card = None
        cur = None  # (kind, obj) collecting raw lines
        buf = []

        def flush():
            nonlocal cur, buf
            if cur is None:
                return
            text = '\n'.join(buf).rstrip()
            kind = cur[0]
            if kind in ('requires', 'ensures'):
                c = Clause(kind, cur[1], cur[2], text)
                (card.requires if kind == 'requires' else card.ensures).append(c)
            elif kind == 'loop':
                card.loops[cur[1]] = text
            elif kind == 'hint':
                card.hints.append((cur[1], cur[2], cur[3], cur[4], text))
            cur = None
            buf = []
        while i < len(lines):
            ln = lines[i]
            m = _DIR.match(ln)
            if not m:
                if card is not None:
                    if cur is not None:
                        buf.append(ln)
                    elif ln.strip():
                        raise GenError('%s:%d: stray text inside //@fn card' % (tp, i + 1))
                else:
                    out.add(ln, {'tpl': os.path.basename(tp), 'line': i + 1})
                i += 1
                continue
            d, rest = m.group(1), m.group(2)
            toks = shlex.split(rest) if d not in ('trusted', 'lemma') else rest.split()
            if d == 'type':
                derive = None
                mm = re.search(r'derive\(([^)]*)\)', rest)
                if mm:
                    derive = mm.group(1)
                emit_type(repo, toks[0], toks[1], derive, out, info, codes=parse_opts(toks[2:]).get('codes'), rename=parse_opts(toks[2:]).get('as'), subs=parse_opts(toks[2:]).get('sub'))
            elif d == 'const':
                emit_const(repo, toks[0], toks[1], out, info)
            elif d == 'fn':
                if card is not None:
                    raise GenError('%s:%d: nested //@fn' % (tp, i + 1))
                card = FnCard(toks[0], toks[1], parse_opts(toks[2:]))
            elif d == 'sigsub':
                card.sigsubs.append((toks[0], toks[1]))
            elif d == 'bodysub':
                card.bodysubs.append((toks[0], toks[1], toks[2]))
            elif d == 'customiter':
                card.iterrecvs.append(toks[0])
            elif d == 'rename':
                card.renames.append((toks[0], toks[1]))
            elif d == 'resultmap':
                card.resultmaps.append(toks[0])
            elif d in ('requires', 'ensures'):
                flush()
                cur = (d, toks[0], toks[1].split(',') if len(toks) > 1 else list(card.tags))
            elif d == 'loop':
                flush()
                cur = ('loop', int(toks[0]))
            elif d == 'hint':
                flush()
                occ = 0
                for t in toks[2:]:
                    if t.startswith('occ='):
                        occ = int(t[4:])
                    if t.startswith('for='):
                        # the clauses this proof step supports: if its anchor is lost only these become undecided
                        if not hasattr(card, 'hint_for'):
                            card.hint_for = {}
                        card.hint_for[toks[0]] = t[4:].split(',')
                cur = ('hint', toks[0], toks[1], toks[2] if len(toks) > 2 else '', occ)
            elif d == 'end':
                flush()
                emit_fn(card, repo, out, info, twin=twin and card.mode != 'assumed' and 'notwin' not in card.opts,
                        assumed_here=(only is not None and card.id not in only))
                card = None
            elif d == 'lemma':
                # //@lemma NAME tags   : next lines are a plain proof fn (template text); recorded only
                info['lemmas'].append({'name': toks[0], 'tags': toks[1].split(',') if len(toks) > 1 else [],
                                       'tpl': os.path.basename(tp), 'line': i + 1})
            elif d == 'trusted':
                info['trusted'].append(rest.strip())
            else:
                raise GenError('%s:%d: unknown directive %s' % (tp, i + 1, d))
            i += 1
        if card is not None:
            raise GenError('%s: unterminated //@fn' % tp)
    auto_names = []
    for (tname, fname) in auto:
        rel = find_auto(repo, tname, fname)
        if rel is None:
            continue
        card = FnCard(rel, ('%s::%s' % (tname, fname)) if tname else fname, {'id': 'auto.%s.%s' % (tname, fname), 'nospinoff': True})
        out.add('verus! {', None)
        if tname:
            out.add(AUTO_IMPL_HEADERS[tname] + ' {', None)
        emit_fn(card, repo, out, info, twin=False, assumed_here=False)
        if tname:
            out.add('}', None)
        out.add('} // verus!', None)
        info['functions'][-1]['auto'] = True
        auto_names.append(fname)
    auto_names += [f['path'].split('::')[-1] for f in info['functions'] if f.get('nocontract')]
    if auto_names:
        # callers of uncontracted helpers
        lines = out.lines
        by_fn = {}
        for i, m in enumerate(out.meta):
            if m and 'fn' in m and m.get('part') == 'body':
                by_fn.setdefault(m['fn'], []).append(lines[i])
        for f in info['functions']:
            if f.get('auto') or f.get('nocontract'):
                continue
            txt = '\n'.join(by_fn.get(f['id'], []))
            hit = [n for n in auto_names if re.search(r'\b%s\s*\(' % re.escape(n), txt)]
            if hit:
                f['calls_auto'] = hit
    return '\n'.join(out.lines) + '\n', out.meta, info
