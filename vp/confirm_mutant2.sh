#!/bin/bash
# confirm_mutant2.sh <worktree> <subdir (mutant_A|mutant_B)> <seed-id> <demo-test-name>
# Confirms, in the scratch worktree, that (a) the existing suite passes with the change, (b) the demo
# passes without it, (c) the demo fails with it; then stores patch + demo + logs under /verif/seeded/<id>/.
set -u
WT=$1; SUB=$2; ID=$3; DEMO=$4
export CARGO_TARGET_DIR=$WT/target CARGO_NET_OFFLINE=true
cd $WT || exit 2
git checkout -q -- src tests 2>/dev/null
rm -f tests/$DEMO.rs
git apply --check $SUB/patch.diff || { echo "patch does not apply"; exit 2; }
OUT=/verif/seeded/$ID; mkdir -p $OUT
git apply $SUB/patch.diff
echo "== (a) suite with change" | tee $OUT/confirm.log
cargo test --workspace --no-fail-fast --offline 2>&1 | grep -E "^test result|FAILED|panicked" | tee -a $OUT/confirm.log
cp $SUB/demo.rs tests/$DEMO.rs
echo "== (c) demo with change" | tee -a $OUT/confirm.log
timeout 900 cargo test --offline --test $DEMO 2>&1 | grep -E "^test result|^test .*(ok|FAILED)|panicked|assertion" | head -8 | tee -a $OUT/confirm.log
git checkout -q -- src
echo "== (b) demo without change" | tee -a $OUT/confirm.log
timeout 900 cargo test --offline --test $DEMO 2>&1 | grep -E "^test result|^test .*(ok|FAILED)|panicked" | head -5 | tee -a $OUT/confirm.log
rm -f tests/$DEMO.rs
cp $SUB/patch.diff $OUT/patch.diff; cp $SUB/demo.rs $OUT/demo.rs; cp $SUB/notes.md $OUT/notes.md 2>/dev/null
echo "stored in $OUT"
