#!/usr/bin/env python3
"""Regenerate MANIFEST.json from the table below (kept here so the manifest is always valid)."""
import json
import os

ROOT = os.path.dirname(os.path.dirname(os.path.abspath(__file__)))

# property -> (technique, level text, level note, design ref)
CLAIMED = {
}
NOT_YET = {
}


def load_tables():
    p = os.path.join(ROOT, 'vp', 'manifest_table.json')
    return json.load(open(p))


def main():
    t = load_tables()
    checks = []
    for pid in sorted(t['claimed']):
        c = t['claimed'][pid]
        checks.append({
            'property_id': pid,
            'quick_cmd': './check %s --tier quick' % pid,
            'thorough_cmd': './check %s --tier thorough' % pid,
            'evidence_file': 'evidence/%s.json' % pid,
            'replay_cmd_template': './check %s --replay {path}' % pid,
            'engine': 'contracts',
            'level_claimed': {'category': 'proof', 'text': c['text'], 'design_ref': c.get('design_ref', 'DESIGN.md section 6 ' + pid)},
            'level_note': c['note'],
            'technique': c['technique'],
        })
    m = {
        'version': 1,
        'setup_cmd': 'true',
        'hooks': {
            'guard': 'cfg(kani) (set only inside scratch copies made by ./check; no hook is committed to /repo)',
            'enable': './check copies /repo\'s working tree to a scratch dir, appends `#[cfg(kani)] #[path=..] mod verif_proofs_*;` to the module files there and runs cargo kani; the Verus lane extracts function text from /repo and never builds it',
            'baseline_off_cmd': 'cd /repo && cargo test --workspace --no-fail-fast --offline',
            'source_commits': [],
            'add_only': True,
        },
        'engines': [{
            'name': 'contracts', 'path': 'check',
            'serves_properties': sorted(t['claimed']),
            'kind_free_text': 'contract-based deductive verification: Verus 0.2026.09.13 on function bodies extracted verbatim from /repo on every run (vp/gen.py, contracts/*.vrs) + Kani 0.68 contract harnesses on the real crate for leaf functions (kani/*.rs)',
        }],
        'checks': checks,
        'not_applicable': [{'property_id': k, 'reason': v} for k, v in sorted(t['not_applicable'].items())],
        'notes': t.get('notes', ''),
    }
    json.dump(m, open(os.path.join(ROOT, 'MANIFEST.json'), 'w'), indent=1)
    print('MANIFEST.json: %d checks, %d not_applicable' % (len(checks), len(m['not_applicable'])))


if __name__ == '__main__':
    main()
