// tried 2026-09-26: 40 min, no verdict (CBMC gave up) - the lazily decoding property iterator over the serde decoder

/// The same lookup on an ENCODED property block — what an inbound PUBLISH really carries (the lazily decoding
/// iterator over the real serde property decoder): Response Topic (one ASCII byte) and Correlation Data (one
/// byte) in either order, each optionally absent, optionally preceded by a Payload Format Indicator.
/// BOUNDED: blocks of at most 10 bytes built from these three entries; every content byte.
#[cfg_attr(kani, kani::proof)]
#[cfg_attr(kani, kani::unwind(12))]
#[cfg_attr(verif_replay, test)]
fn k_response_encoded() {
    let topic_first: bool = kani::any();
    let have_t: bool = kani::any();
    let have_c: bool = kani::any();
    let lead: bool = kani::any();
    let t: u8 = kani::any();
    kani::assume(t < 0x80);
    let c: u8 = kani::any();
    let mut buf = [0u8; 10];
    let mut n = 0usize;
    if lead {
        buf[0] = 0x01;
        buf[1] = 1;
        n = 2;
    }
    let mut round = 0;
    while round < 2 {
        let topic_now = (round == 0) == topic_first;
        if topic_now && have_t {
            buf[n] = 0x08; buf[n + 1] = 0; buf[n + 2] = 1; buf[n + 3] = t;
            n += 4;
        }
        if !topic_now && have_c {
            buf[n] = 0x09; buf[n + 1] = 0; buf[n + 2] = 1; buf[n + 3] = c;
            n += 4;
        }
        round += 1;
    }
    let props = Properties::encoded(&buf[..n]);
    let got_t = props.response_topic();
    let got_c = props.correlation_data();
    match got_t {
        Some(s) => assert!(have_t && s.len() == 1 && s.as_bytes()[0] == t, "wrong response topic from an encoded block"),
        None => assert!(!have_t, "response topic of an encoded block not found"),
    }
    match got_c {
        Some(d) => assert!(have_c && d.len() == 1 && d[0] == c, "wrong correlation data from an encoded block"),
        None => assert!(!have_c, "correlation data of an encoded block not found"),
    }
    kani::cover!(have_t && have_c && !topic_first && lead);
}
