use vstd::prelude::*;
use vstd::std_specs::cmp::*;
verus! {
#[derive(Copy, Clone, PartialEq, Eq)]
pub enum QoS { AtMostOnce = 0, AtLeastOnce = 1, ExactlyOnce = 2 }

pub open spec fn qn(q: QoS) -> int { match q { QoS::AtMostOnce => 0, QoS::AtLeastOnce => 1, QoS::ExactlyOnce => 2 } }

impl PartialOrdSpecImpl for QoS {
    open spec fn obeys_partial_cmp_spec() -> bool { true }
    open spec fn partial_cmp_spec(&self, other: &QoS) -> Option<core::cmp::Ordering> {
        if qn(*self) < qn(*other) { Some(core::cmp::Ordering::Less) } else if qn(*self) == qn(*other) { Some(core::cmp::Ordering::Equal) } else { Some(core::cmp::Ordering::Greater) }
    }
}
impl PartialOrd for QoS {
    fn partial_cmp(&self, other: &QoS) -> (r: Option<core::cmp::Ordering>)
    {
        let a = *self as u8; let b = *other as u8;
        if a < b { Some(core::cmp::Ordering::Less) } else if a == b { Some(core::cmp::Ordering::Equal) } else { Some(core::cmp::Ordering::Greater) }
    }
}

fn gt(q: QoS) -> (r: bool) ensures r == (q != QoS::AtMostOnce) {
    q > QoS::AtMostOnce
}
}
fn main() {}
