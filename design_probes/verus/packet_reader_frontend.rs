use vstd::prelude::*;
verus! {
pub enum Error { MalformedPacket, Other }
pub struct PacketReader<'a> {
    pub buffer: &'a mut [u8],
    pub read_bytes: usize,
    pub packet_length: Option<usize>,
}
impl<'a> PacketReader<'a> {
fn new(buffer: &'a mut [u8]) -> PacketReader<'a> {
        PacketReader {
            buffer,
            read_bytes: 0,
            packet_length: None,
        }
    }

fn capacity(&self) -> usize {
        self.buffer.len()
    }

fn receive_buffer(&mut self) -> Result<&mut [u8], Error> {
        if self.packet_length.is_none() {
            self.probe_fixed_header()?;
        }

        let end = if let Some(packet_length) = &self.packet_length {
            *packet_length
        } else {
            self.read_bytes + 1
        };

        if end <= self.buffer.len() {
            
            Ok(&mut self.buffer[self.read_bytes..end])
        } else {
            
            Err(Error::MalformedPacket)
        }
    }

fn commit(&mut self, count: usize) {
        self.read_bytes += count;
        
    }

fn probe_fixed_header(&mut self) -> Result<(), Error> {
        if self.read_bytes <= 1 {
            return Ok(());
        }

        self.packet_length = None;

        let mut packet_length = 0;
        let __s = &self.buffer[1..self.read_bytes];
        let mut index = 0;
        while index < 4 && index < __s.len()
            decreases 4 - index
        {
            let value = __s[index];
            packet_length += ((value & 0x7F) as usize) << (index * 7);
            if (value & 0x80) == 0 {
                let length_size_bytes = 1 + index;

                
                
                let header_size_bytes = 1 + length_size_bytes;
                self.packet_length = Some(header_size_bytes + packet_length);
                
                break;
            }
            index += 1;
        }

        
        if self.read_bytes >= 5 && self.packet_length.is_none() {
            
            return Err(Error::MalformedPacket);
        }

        Ok(())
    }

fn packet_available(&self) -> bool {
        match self.packet_length {
            Some(length) => self.read_bytes >= length,
            None => false,
        }
    }

fn reset(&mut self) {
        
        self.read_bytes = 0;
        self.packet_length = None;
    }


}
}
fn main() {}
