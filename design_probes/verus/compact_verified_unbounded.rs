use vstd::prelude::*;
verus! {
#[derive(Copy, Clone, PartialEq, Eq)]
pub enum SendState { Write { written: usize }, Flush, Sent }
#[derive(Copy, Clone, PartialEq, Eq)]
pub struct RetainedPacket { pub packet_id: u16, pub offset: usize, pub len: usize, pub state: SendState }

pub struct HVec<T, const N: usize> { pub v: Vec<T> }
impl<T, const N: usize> View for HVec<T, N> { type V = Seq<T>; closed spec fn view(&self) -> Seq<T> { self.v@ } }
impl<T, const N: usize> HVec<T, N> {
    #[verifier::external_body]
    pub fn len(&self) -> (r: usize) ensures r == self@.len(), r <= N { unimplemented!() }
    #[verifier::external_body]
    pub fn at_mut(&mut self, i: usize) -> (r: &mut T)
        requires i < old(self)@.len()
        ensures *r == old(self)@[i as int], final(self)@ == old(self)@.update(i as int, *final(r))
    { unimplemented!() }
}

/// trusted model of `<[u8]>::copy_within(src_start..src_end, dest)`
#[verifier::external_body]
pub fn slice_copy_within(b: &mut [u8], src_start: usize, src_end: usize, dest: usize)
    requires src_start <= src_end <= old(b)@.len(), dest + (src_end - src_start) <= old(b)@.len()
    ensures final(b)@.len() == old(b)@.len(),
        forall|k: int| 0 <= k < final(b)@.len() ==> #[trigger] final(b)@[k] ==
            (if dest <= k < dest + (src_end - src_start) { old(b)@[k - dest + src_start] } else { old(b)@[k] })
{ unimplemented!() }

pub struct Outbound<'a> {
    pub buf: &'a mut [u8],
    pub used: usize,
    pub retained: HVec<RetainedPacket, 8>,
}

pub open spec fn bytes_of(buf: Seq<u8>, e: RetainedPacket) -> Seq<u8> { buf.subrange(e.offset as int, e.offset + e.len) }

// entries ordered, disjoint, in bounds
pub open spec fn packed_ok(buf_len: int, r: Seq<RetainedPacket>) -> bool {
    &&& forall|i: int| 0 <= i < r.len() ==> #[trigger] r[i].offset + r[i].len <= buf_len
    &&& forall|i: int, j: int| 0 <= i < j < r.len() ==> #[trigger] r[i].offset + r[i].len <= #[trigger] r[j].offset
}
pub open spec fn prefix_sum(r: Seq<RetainedPacket>, n: int) -> int decreases n {
    if n <= 0 { 0 } else { prefix_sum(r, n - 1) + r[n - 1].len }
}

impl<'a> Outbound<'a> {
    fn compact(&mut self)
        requires packed_ok(old(self).buf@.len() as int, old(self).retained@)
        ensures
            final(self).buf@.len() == old(self).buf@.len(),
            final(self).retained@.len() == old(self).retained@.len(),
            forall|i: int| 0 <= i < final(self).retained@.len() ==> {
                let a = #[trigger] final(self).retained@[i]; let b = old(self).retained@[i];
                a.packet_id == b.packet_id && a.len == b.len && a.state == b.state
                && a.offset == prefix_sum(old(self).retained@, i)
                && bytes_of(final(self).buf@, a) =~= bytes_of(old(self).buf@, b)
            },
            final(self).used == prefix_sum(old(self).retained@, old(self).retained@.len() as int),
    {
        let previous_used = self.used;
        let __n = self.buf.len();

        let mut cursor = 0;
        let mut moved = 0;
        let mut __i = 0;
        while __i < self.retained.len()
            invariant
                __i <= self.retained@.len(),
                self.retained@.len() == old(self).retained@.len(),
                self.buf@.len() == old(self).buf@.len(),
                self.buf@.len() == __n,
                cursor <= __n,
                cursor == prefix_sum(old(self).retained@, __i as int),
                moved <= __i, __i <= 8,
                forall|i: int| 0 <= i < __i ==> (#[trigger] self.retained@[i]).offset + self.retained@[i].len <= cursor,
                packed_ok(old(self).buf@.len() as int, old(self).retained@),
                // untouched suffix
                forall|j: int| __i <= j < self.retained@.len() ==> #[trigger] self.retained@[j] == old(self).retained@[j],
                __i < self.retained@.len() ==> cursor <= old(self).retained@[__i as int].offset,
                // bytes at/after the next entry's offset are still original
                forall|k: int| (if __i < self.retained@.len() { old(self).retained@[__i as int].offset as int } else { self.buf@.len() as int }) <= k < self.buf@.len() ==> #[trigger] self.buf@[k] == old(self).buf@[k],
                // done prefix
                forall|i: int| 0 <= i < __i ==> {
                    let a = #[trigger] self.retained@[i]; let b = old(self).retained@[i];
                    a.packet_id == b.packet_id && a.len == b.len && a.state == b.state
                    && a.offset == prefix_sum(old(self).retained@, i)
                    && bytes_of(self.buf@, a) =~= bytes_of(old(self).buf@, b)
                },
            decreases self.retained@.len() - __i
        {
            proof {
                assert(self.retained@[__i as int] == old(self).retained@[__i as int]);
                assert(old(self).retained@[__i as int].offset + old(self).retained@[__i as int].len <= old(self).buf@.len());
            }
            let ghost buf_before = self.buf@;
            let ghost ret_before = self.retained@;
            let entry = self.retained.at_mut(__i);
            assert(*entry == old(self).retained@[__i as int]);
            if entry.offset != cursor {
                slice_copy_within(self.buf, entry.offset, entry.offset + entry.len, cursor);
                entry.offset = cursor;
                moved += 1;
            }
            cursor += entry.len;
            __i += 1;
        }
        self.used = cursor;
    }
}
}
fn main() {}
