use vstd::prelude::*;
verus! {

pub struct HIter<'a, T> { pub s: &'a [T] }
impl<'a, T> HIter<'a, T> {
    pub fn position<F: Fn(&T) -> bool>(self, f: F) -> (r: Option<usize>)
        requires forall|i: int| 0 <= i < self.s@.len() ==> #[trigger] f.requires((&self.s@[i],)),
        ensures match r {
            Some(k) => k < self.s@.len() && f.ensures((&self.s@[k as int],), true)
                       && forall|j: int| 0 <= j < k ==> f.ensures((&self.s@[j],), false),
            None => forall|j: int| 0 <= j < self.s@.len() ==> f.ensures((&self.s@[j],), false),
        }
    {
        let mut i: usize = 0;
        while i < self.s.len()
            invariant i <= self.s@.len(),
               forall|j: int| 0 <= j < self.s@.len() ==> #[trigger] f.requires((&self.s@[j],)),
               forall|j: int| 0 <= j < i ==> f.ensures((&self.s@[j],), false),
            decreases self.s@.len() - i
        {
            if f(&self.s[i]) { return Some(i); }
            i += 1;
        }
        None
    }
}

fn find(ids: &[u16], packet_id: u16) -> (r: Option<usize>)
    ensures match r { Some(k) => k < ids@.len() && ids@[k as int] == packet_id && forall|j:int| 0<=j<k ==> ids@[j] != packet_id,
                      None => forall|j:int| 0<=j<ids@.len() ==> ids@[j] != packet_id }
{
    let it = HIter { s: ids };
    it.position(|id| -> (r: bool) ensures r == (*id == packet_id) { *id == packet_id })
}
}
fn main() {}
