use vstd::prelude::*;
verus! {

// ---------- shims (trusted) ----------
pub assume_specification<T, E> [Result::<T, E>::unwrap_or] (r: Result<T, E>, d: T) -> (o: T)
    ensures o == (match r { Ok(v) => v, Err(_) => d });

pub assume_specification<T, F: FnOnce(T) -> bool> [Option::<T>::is_some_and] (o: Option<T>, f: F) -> (r: bool)
    requires o is Some ==> f.requires((o->0,)),
    ensures match o { Some(v) => f.ensures((v,), r), None => !r };

#[derive(Copy, Clone, PartialEq, Eq)]
pub struct Instant { pub ticks: u64 }
#[derive(Copy, Clone, PartialEq, Eq)]
pub struct Duration { pub ticks: u64 }
impl core::ops::Add<Duration> for Instant {
    type Output = Instant;
    #[verifier::external_body]
    fn add(self, rhs: Duration) -> (r: Instant) { unimplemented!() }
}
impl core::cmp::PartialOrd for Instant {
    #[verifier::external_body]
    fn partial_cmp(&self, other: &Instant) -> Option<core::cmp::Ordering> { unimplemented!() }
}
impl Instant {
    #[verifier::external_body]
    pub fn now() -> Instant { unimplemented!() }
}
impl Duration {
    #[verifier::external_body]
    pub fn from_millis(ms: u64) -> (r: Duration) ensures r.ticks == ms * 1000 { unimplemented!() }
}

pub struct IoErr { pub k: u8 }
impl IoErr { #[verifier::external_body] pub fn kind(&self) -> u8 { unimplemented!() } }

pub struct VIo { pub ghost_wire: Ghost<Seq<u8>>, pub ghost_ops: Ghost<nat> }
impl VIo {
    #[verifier::external_body]
    pub async fn write(&mut self, buf: &[u8]) -> (r: Result<usize, IoErr>)
        ensures
            final(self).ghost_ops@ == old(self).ghost_ops@ + 1,
            match r { Ok(n) => n <= buf@.len() && final(self).ghost_wire@ == old(self).ghost_wire@ + buf@.subrange(0, n as int),
                      Err(_) => final(self).ghost_wire@ == old(self).ghost_wire@ }
    { unimplemented!() }
    #[verifier::external_body]
    pub async fn flush(&mut self) -> (r: Result<(), IoErr>)
        ensures final(self).ghost_ops@ == old(self).ghost_ops@ + 1, final(self).ghost_wire@ == old(self).ghost_wire@
    { unimplemented!() }
}

#[derive(Copy, Clone, PartialEq, Eq)]
pub enum ReasonCode { Success, PacketIdNotFound, PacketIdInUse, ReceiveMaxExceeded, Other }

pub enum ResourceError { BufferTooSmall, PacketTooLarge, InflightExhausted }
pub enum PeerError { InvalidPacket }
pub enum ProtocolError { UnexpectedPacket, MalformedPacket, InflightMetadataExhausted, PacketTooLarge }
pub enum Error<E> { NotReady, Disconnected, InvalidRequest, Peer(PeerError), Resource(ResourceError), Transport(E), WriteZero }

impl<E> From<ProtocolError> for Error<E> {
    #[verifier::external_body]
    fn from(p: ProtocolError) -> Self { unimplemented!() }
}

pub const CONTROL_PACKET_LEN: usize = 9;
pub const ROUND_TRIP_TIMEOUT_MS: u64 = 5_000;

#[derive(Copy, Clone, PartialEq, Eq)]
pub enum ControlAction {
    PubAck { packet_id: u16, reason: ReasonCode },
    PubRec { packet_id: u16, reason: ReasonCode },
    PubComp { packet_id: u16, reason: ReasonCode },
    PingReq,
}
#[derive(Copy, Clone, PartialEq, Eq)]
pub enum SendState { Write { written: usize }, Flush, Sent }
#[derive(Copy, Clone, PartialEq, Eq)]
pub struct RetainedStep { pub packet_id: u16, pub offset: usize, pub len: usize, pub state: SendState }
#[derive(Copy, Clone, PartialEq, Eq)]
pub struct ReleaseStep { pub packet_id: u16, pub reason: ReasonCode, pub state: SendState }
#[derive(Copy, Clone, PartialEq, Eq)]
pub struct ControlStep { pub action: ControlAction, pub state: SendState }
#[derive(Copy, Clone, PartialEq, Eq)]
pub enum OutboundStep { Control(ControlStep), Release(ReleaseStep), Retained(RetainedStep) }

pub struct Outbound { pub g: Ghost<int> }
impl Outbound {
    #[verifier::external_body] pub fn next_step(&self) -> Option<OutboundStep> { unimplemented!() }
    #[verifier::external_body] pub fn has_pending_pingreq(&self) -> bool { unimplemented!() }
    #[verifier::external_body] pub fn queue_control(&mut self, action: ControlAction) -> Result<(), ProtocolError> { unimplemented!() }
    #[verifier::external_body] pub fn set_control_written(&mut self, action: ControlAction, written: usize, len: usize) -> bool { unimplemented!() }
    #[verifier::external_body] pub fn set_release_written(&mut self, packet_id: u16, written: usize, len: usize) -> bool { unimplemented!() }
    #[verifier::external_body] pub fn set_retained_written(&mut self, packet_id: u16, written: usize, len: usize) -> bool { unimplemented!() }
    #[verifier::external_body] pub fn flush_control(&mut self, action: ControlAction) -> bool { unimplemented!() }
    #[verifier::external_body] pub fn flush_release(&mut self, packet_id: u16) -> bool { unimplemented!() }
    #[verifier::external_body] pub fn flush_retained(&mut self, packet_id: u16) -> bool { unimplemented!() }
    #[verifier::external_body] pub fn retained_packet(&self, offset: usize, len: usize) -> &[u8] { unimplemented!() }
    #[verifier::external_body] pub fn pending_control_len(&self) -> usize { unimplemented!() }
    #[verifier::external_body] pub fn retained_len(&self) -> usize { unimplemented!() }
    #[verifier::external_body] pub fn pending_release_len(&self) -> usize { unimplemented!() }
    #[verifier::external_body] pub fn used(&self) -> usize { unimplemented!() }
    #[verifier::external_body] pub fn capacity(&self) -> usize { unimplemented!() }
}
#[verifier::external_body]
pub fn check_control_packet_size(maximum_packet_size: Option<u32>, action: ControlAction) -> Result<(), ProtocolError> { unimplemented!() }
#[verifier::external_body]
pub fn serialize_control_packet<'b, E>(buffer: &'b mut [u8], packet: ControlAction, maximum_packet_size: Option<u32>) -> Result<&'b [u8], Error<E>> { unimplemented!() }
#[verifier::external_body]
pub fn serialize_pubrel<'b, E>(buffer: &'b mut [u8], packet_id: u16, reason: ReasonCode, maximum_packet_size: Option<u32>) -> Result<&'b [u8], Error<E>> { unimplemented!() }

pub struct RuntimeState {
    pub max_qos: Option<QoS>,
    pub send_quota: u16,
    pub max_send_quota: u16,
    pub maximum_packet_size: Option<u32>,
    pub next_ping: Option<Instant>,
    pub ping_timeout: Option<Instant>,
}
impl RuntimeState {
    #[verifier::external_body] pub fn next_deadline(&self) -> Option<Instant> { unimplemented!() }
    #[verifier::external_body] pub fn note_outbound_activity(&mut self, now: Instant) { unimplemented!() }
    #[verifier::external_body] pub fn require_packet_size<E>(&self, len: usize) -> Result<(), Error<E>> { unimplemented!() }
}
pub struct SessionData { pub outbound: Outbound, pub pending_server_packet_ids: HVec<u16, 8>, pub session_present: bool }
pub struct Session { pub data: SessionData, pub runtime: RuntimeState, pub downgrade_qos: bool, pub packet_reader: PacketReader }
impl Session { #[verifier::external_body] pub fn handle_disconnect(&mut self) { unimplemented!() } }

// ---- more shims for operations.rs ----
#[derive(Copy, Clone, PartialEq, Eq, PartialOrd, Ord)]
pub enum QoS { AtMostOnce = 0, AtLeastOnce = 1, ExactlyOnce = 2 }
#[derive(Copy, Clone, PartialEq, Eq)]
pub enum Retain { NotRetained = 0, Retained = 1 }
#[derive(Copy, Clone)]
pub enum PropertyContext { Publish, Subscribe, Unsubscribe, Disconnect, Will }
pub struct Property<'a> { pub p: &'a [u8] }
pub struct Properties<'a> { pub s: &'a [Property<'a>] }
impl<'a> Properties<'a> {
    #[verifier::external_body] pub fn from_slice(properties: &'a [Property<'a>]) -> Properties<'a> { unimplemented!() }
    #[verifier::external_body] pub fn valid_for(&'a self, context: PropertyContext) -> bool { unimplemented!() }
}
pub trait ToPayload: Sized {
    type Error;
    fn serialize(self, buffer: &mut [u8]) -> Result<usize, Self::Error>;
}
pub struct Publication<'a, P> {
    pub topic: &'a str,
    pub properties: Properties<'a>,
    pub qos: QoS,
    pub payload: P,
    pub retain: Retain,
}
pub struct Utf8String<'a>(pub &'a str);
pub struct PublishHeader<'a> {
    pub topic: Utf8String<'a>,
    pub packet_id: Option<u16>,
    pub properties: Properties<'a>,
    pub retain: Retain,
    pub qos: QoS,
    pub dup: bool,
}
pub struct TopicFilter<'a> { pub t: &'a str }
pub struct Subscribe<'a> { pub packet_id: u16, pub dup: bool, pub properties: Properties<'a>, pub topics: &'a [TopicFilter<'a>] }
pub struct Unsubscribe<'a> { pub packet_id: u16, pub dup: bool, pub properties: Properties<'a>, pub topics: &'a [&'a str] }
pub struct Disconnect<'a> { pub reason_code: Option<ReasonCode>, pub properties: Option<Properties<'a>> }
impl<'a> Disconnect<'a> {
    #[verifier::external_body] pub const fn success() -> Self { unimplemented!() }
    #[verifier::external_body] pub const fn properties(&self) -> Option<&Properties<'a>> { unimplemented!() }
}
pub trait Encodable {}
impl Encodable for Subscribe<'_> {}
impl Encodable for Unsubscribe<'_> {}
impl Encodable for Disconnect<'_> {}
pub enum SerError { InsufficientMemory, Custom }
pub enum SerPubError<E> { Encode(SerError), Payload(E) }
pub struct MqttSerializer {}
impl MqttSerializer {
    #[verifier::external_body]
    pub fn encode<'b, T: Encodable>(buf: &'b mut [u8], packet: &T) -> Result<&'b [u8], SerError> { unimplemented!() }
    #[verifier::external_body]
    pub fn encode_publish<'b, P: ToPayload>(buf: &'b mut [u8], header: &PublishHeader<'_>, payload: P) -> Result<&'b [u8], SerPubError<P::Error>> { unimplemented!() }
}
pub enum PubError<P, T> { Session(Error<T>), Payload(P) }
impl<P, T> From<Error<T>> for PubError<P, T> { #[verifier::external_body] fn from(e: Error<T>) -> Self { unimplemented!() } }
impl<P, T> From<SerPubError<P>> for PubError<P, T> { #[verifier::external_body] fn from(e: SerPubError<P>) -> Self { unimplemented!() } }
impl<P, T> From<ProtocolError> for PubError<P, T> { #[verifier::external_body] fn from(e: ProtocolError) -> Self { unimplemented!() } }
impl<E> From<SerError> for Error<E> { #[verifier::external_body] fn from(e: SerError) -> Self { unimplemented!() } }

#[derive(Copy, Clone, PartialEq, Eq)]
pub enum OpKind { PublishAtLeastOnce, PublishExactlyOnce, Subscribe, Unsubscribe }
#[derive(Copy, Clone, PartialEq, Eq)]
pub struct Op { pub kind: OpKind, pub packet_id: u16, pub generation: u32 }
impl Op { pub fn new(kind: OpKind, packet_id: u16, generation: u32) -> Self { Self { kind, packet_id, generation } } }

impl Outbound {
    #[verifier::external_body] pub fn encode_publish<P: ToPayload, E>(&mut self, header: &PublishHeader<'_>, payload: P) -> Result<(usize, usize), PubError<P::Error, E>> { unimplemented!() }
    #[verifier::external_body] pub fn encode_packet<T: Encodable>(&mut self, packet: &T) -> Result<(usize, usize), ProtocolError> { unimplemented!() }
    #[verifier::external_body] pub fn retain_packet(&mut self, packet_id: u16, offset: usize, len: usize) -> Result<(), ProtocolError> { unimplemented!() }
    #[verifier::external_body] pub fn scratch_space(&mut self) -> &mut [u8] { unimplemented!() }
    #[verifier::external_body] pub fn scratch_len(&self) -> usize { unimplemented!() }
    #[verifier::external_body] pub fn can_retain(&self) -> bool { unimplemented!() }
    #[verifier::external_body] pub fn retained_full(&self) -> bool { unimplemented!() }
}
impl SessionData {
    #[verifier::external_body] pub fn next_packet_id(&mut self) -> u16 { unimplemented!() }
    #[verifier::external_body] pub fn generation(&self) -> u32 { unimplemented!() }
}
impl Session {
    #[verifier::external_body] pub fn can_publish(&self, qos: QoS) -> bool { unimplemented!() }
}
#[verifier::external_body]
pub async fn write_all(connection: &mut VIo, bytes: &[u8]) -> Result<(), Error<IoErr>> { unimplemented!() }

// ---- shims for inbound.rs ----
pub struct Infallible {}
pub struct Reason { pub c: ReasonCode }
impl Reason { #[verifier::external_body] pub fn code(&self) -> ReasonCode { unimplemented!() } }
impl ReasonCode {
    #[verifier::external_body] pub fn as_result(&self) -> Result<(), PeerError> { unimplemented!() }
    #[verifier::external_body] pub fn success(&self) -> bool { unimplemented!() }
}
impl From<u8> for ReasonCode { #[verifier::external_body] fn from(v: u8) -> Self { unimplemented!() } }
impl<E> From<PeerError> for Error<E> { #[verifier::external_body] fn from(e: PeerError) -> Self { unimplemented!() } }
pub struct ConnAck {}
pub struct SubAck<'a> { pub packet_id: u16, pub codes: &'a [u8] }
pub struct UnsubAck<'a> { pub packet_id: u16, pub codes: &'a [u8] }
pub struct PubAck { pub packet_id: u16, pub reason: Reason }
pub struct PubRec { pub packet_id: u16, pub reason: Reason }
pub struct PubRel { pub packet_id: u16, pub reason: Reason }
pub struct PubComp { pub packet_id: u16, pub reason: Reason }
pub struct Publish<'a> { pub topic: Utf8String<'a>, pub packet_id: Option<u16>, pub properties: Properties<'a>, pub payload: &'a [u8], pub retain: Retain, pub qos: QoS, pub dup: bool }
pub enum ReceivedPacket<'a> {
    ConnAck(ConnAck), Publish(Publish<'a>), PubAck(PubAck), SubAck(SubAck<'a>), UnsubAck(UnsubAck<'a>),
    PubRel(PubRel), PubRec(PubRec), PubComp(PubComp), Disconnect(Disconnect<'a>), PingResp,
}
impl<'a> Disconnect<'a> { #[verifier::external_body] pub fn reason_code(&self) -> ReasonCode { unimplemented!() } }
impl Outbound {
    #[verifier::external_body] pub fn ack_packet(&mut self, packet_id: u16) -> bool { unimplemented!() }
    #[verifier::external_body] pub fn has_pending_release(&self, packet_id: u16) -> bool { unimplemented!() }
    #[verifier::external_body] pub fn queue_release(&mut self, packet_id: u16, reason: ReasonCode) -> Result<(), ProtocolError> { unimplemented!() }
    #[verifier::external_body] pub fn ack_release(&mut self, packet_id: u16) -> bool { unimplemented!() }
}
#[verifier::external_body]
pub fn check_pubrel_size(maximum_packet_size: Option<u32>, packet_id: u16, reason: ReasonCode) -> Result<(), ProtocolError> { unimplemented!() }

pub struct HVec<T, const N: usize> { pub v: Vec<T> }
pub struct HIter<'a, T> { pub s: &'a [T] }
impl<T, const N: usize> HVec<T, N> {
    #[verifier::external_body] pub fn iter(&self) -> HIter<'_, T> { unimplemented!() }
    #[verifier::external_body] pub fn swap_remove(&mut self, index: usize) -> T { unimplemented!() }
    #[verifier::external_body] pub fn push(&mut self, item: T) -> Result<(), T> { unimplemented!() }
    #[verifier::external_body] pub fn len(&self) -> usize { unimplemented!() }
    #[verifier::external_body] pub fn clear(&mut self) { unimplemented!() }
}
impl<const N: usize> HVec<u16, N> {
    #[verifier::external_body] pub fn contains(&self, x: &u16) -> bool { unimplemented!() }
}
impl<'a, T> HIter<'a, T> {
    #[verifier::external_body] pub fn position<F: Fn(&T) -> bool>(self, f: F) -> Option<usize> { unimplemented!() }
}

// ---- shims for drive.rs part 2 ----
pub struct TimeoutError {}
#[verifier::external_body]
pub async fn with_deadline<F: core::future::Future>(deadline: Instant, fut: F) -> Result<F::Output, TimeoutError> { unimplemented!() }
pub struct PacketReader { pub g: Ghost<int> }
impl PacketReader {
    #[verifier::external_body] pub fn packet_available(&self) -> bool { unimplemented!() }
}
pub struct InboundPublish<'a> { pub topic: &'a str }
#[derive(Copy, Clone)]
enum Progress { Idle, Advanced, Inbound(usize) }
#[verifier::external_body]
pub async fn fill_packet_reader(packet_reader: &mut PacketReader, connection: &mut VIo) -> Result<(), Error<IoErr>> { unimplemented!() }

pub struct Connection<'a> { pub session: &'a mut Session, pub io: VIo, pub live: bool }

#[derive(Copy, Clone)]
enum FlushedPacket { Control(ControlAction), Release(u16), Retained(u16) }
struct WriteStep<'a> { packet: FlushedPacket, bytes: &'a [u8], written: usize, len: usize }
enum PreparedStep<'a> { Write(WriteStep<'a>), Flush(FlushedPacket), Done }

impl<'x> Connection<'x> {
    pub fn handle_disconnect(&mut self) {
        self.live = false;
        self.session.handle_disconnect();
    }
fn should_queue_pingreq(&self, now: Instant) -> bool {
        self.session.runtime.ping_timeout.is_none()
            && self
                .session
                .runtime
                .next_ping
                .is_some_and(|deadline| now >= deadline)
            && !self.session.data.outbound.has_pending_pingreq()
    }

fn maybe_queue_pingreq(&mut self, now: Instant) -> Result<(), Error<IoErr>> {
        if self.should_queue_pingreq(now) {
            check_control_packet_size(
                self.session.runtime.maximum_packet_size,
                ControlAction::PingReq,
            )?;
            self.session
                .data
                .outbound
                .queue_control(ControlAction::PingReq)?;
        }
        Ok(())
    }

async fn service(&mut self, now: Instant) -> Result<bool, Error<IoErr>> {
        let runtime = &mut self.session.runtime;
        if runtime
            .ping_timeout
            .map(|deadline| now >= deadline)
            .unwrap_or(false)
        {
            
            self.handle_disconnect();
            return Err(Error::Disconnected);
        }
        self.service_outbound_once(now).await
    }

fn complete_flush(&mut self, packet: FlushedPacket, now: Instant) {
        let runtime = &mut self.session.runtime;
        let data = &mut self.session.data;
        if matches!(packet, FlushedPacket::Control(ControlAction::PingReq)) {
            runtime.ping_timeout = Some(now + Duration::from_millis(ROUND_TRIP_TIMEOUT_MS));
        }
        runtime.note_outbound_activity(now);
        let found = match packet {
            FlushedPacket::Control(action) => data.outbound.flush_control(action),
            FlushedPacket::Release(packet_id) => data.outbound.flush_release(packet_id),
            FlushedPacket::Retained(packet_id) => data.outbound.flush_retained(packet_id),
        };
        debug_assert!(found, "completed outbound packet no longer tracked");
    }

fn set_written(&mut self, packet: FlushedPacket, written: usize, len: usize) {
        let out = &mut self.session.data.outbound;
        let found = match packet {
            FlushedPacket::Control(action) => out.set_control_written(action, written, len),
            FlushedPacket::Release(packet_id) => out.set_release_written(packet_id, written, len),
            FlushedPacket::Retained(packet_id) => out.set_retained_written(packet_id, written, len),
        };
        debug_assert!(found, "outbound packet no longer tracked");
    }

async fn flush_current(
        &mut self,
        packet: FlushedPacket,
        now: Instant,
    ) -> Result<(), Error<IoErr>> {
        if !self.live {
            return Err(Error::Disconnected);
        }
        if let Err(err) = self.io.flush().await {
            
            self.handle_disconnect();
            return Err(Error::Transport(err));
        }
        self.complete_flush(packet, now);
        Ok(())
    }

#[verifier::exec_allows_no_decreases_clause]
async fn flush_outbound(&mut self) -> Result<(), Error<IoErr>> {
        loop {
            self.maybe_queue_pingreq(Instant::now())?;
            let Some(step) = self.session.data.outbound.next_step() else {
                return Ok(());
            };
            self.perform_outbound_step(step, Instant::now()).await?;
        }
    }

async fn perform_outbound_step(
        &mut self,
        step: OutboundStep,
        now: Instant,
    ) -> Result<bool, Error<IoErr>> {
        let mut small_buf = [0u8; CONTROL_PACKET_LEN];
        let runtime = &mut self.session.runtime;
        let data = &mut self.session.data;
        let prepared = match step {
            OutboundStep::Control(step) => match step.state {
                SendState::Write { written } => {
                    
                    let packet = serialize_control_packet(
                        &mut small_buf,
                        step.action,
                        runtime.maximum_packet_size,
                    )?;
                    PreparedStep::Write(WriteStep {
                        packet: FlushedPacket::Control(step.action),
                        bytes: packet,
                        written,
                        len: packet.len(),
                    })
                }
                SendState::Flush => {
                    
                    PreparedStep::Flush(FlushedPacket::Control(step.action))
                }
                SendState::Sent => PreparedStep::Done,
            },
            OutboundStep::Release(step) => match step.state {
                SendState::Write { written } => {
                    
                    let packet = serialize_pubrel(
                        &mut small_buf,
                        step.packet_id,
                        step.reason,
                        runtime.maximum_packet_size,
                    )?;
                    PreparedStep::Write(WriteStep {
                        packet: FlushedPacket::Release(step.packet_id),
                        bytes: packet,
                        written,
                        len: packet.len(),
                    })
                }
                SendState::Flush => {
                    
                    PreparedStep::Flush(FlushedPacket::Release(step.packet_id))
                }
                SendState::Sent => PreparedStep::Done,
            },
            OutboundStep::Retained(step) => match step.state {
                SendState::Write { written } => {
                    
                    runtime.require_packet_size(step.len)?;
                    PreparedStep::Write(WriteStep {
                        packet: FlushedPacket::Retained(step.packet_id),
                        bytes: data.outbound.retained_packet(step.offset, step.len),
                        written,
                        len: step.len,
                    })
                }
                SendState::Flush => {
                    
                    PreparedStep::Flush(FlushedPacket::Retained(step.packet_id))
                }
                SendState::Sent => PreparedStep::Done,
            },
        };

        let packet = match prepared {
            PreparedStep::Write(packet) => packet,
            PreparedStep::Flush(packet) => {
                self.flush_current(packet, now).await?;
                return Ok(true);
            }
            PreparedStep::Done => return Ok(false),
        };

        if !self.live {
            return Err(Error::Disconnected);
        }
        let WriteStep {
            packet,
            bytes,
            written,
            len,
        } = packet;
        let count = match write_current(&mut self.io, &bytes[written..]).await {
            Ok(count) => count,
            Err(Error::Transport(err)) => {
                
                self.handle_disconnect();
                return Err(Error::Transport(err));
            }
            Err(err) => return Err(err),
        };
        let written = written + count;
        self.set_written(packet, written, len);
        if written < len {
            return Ok(true);
        }
        self.flush_current(packet, now).await?;
        Ok(true)
    }

async fn service_outbound_once(&mut self, now: Instant) -> Result<bool, Error<IoErr>> {
        self.maybe_queue_pingreq(now)?;
        let Some(step) = self.session.data.outbound.next_step() else {
            return Ok(false);
        };
        self.perform_outbound_step(step, now).await
    }


    pub fn can_publish(&self, qos: QoS) -> bool { self.live && self.session.can_publish(qos) }
    #[verifier::external_body] fn process_received_packet(&mut self) -> Result<Option<usize>, Error<IoErr>> { unimplemented!() }
    #[verifier::external_body] fn decode_inbound_publish(&self, packet_length: usize) -> InboundPublish<'_> { unimplemented!() }
#[verifier::exec_allows_no_decreases_clause]
async fn drive_packet(&mut self) -> Result<Progress, Error<IoErr>> {
        if !self.live {
            return Err(Error::Disconnected);
        }
        let mut advanced = false;
        loop {
            if self.session.packet_reader.packet_available() {
                match self.process_received_packet()? {
                    Some(packet_length) => return Ok(Progress::Inbound(packet_length)),
                    None => {
                        advanced = true;
                        continue;
                    }
                }
            }

            let now = Instant::now();
            { let __t = self.service(now).await?; advanced = advanced || __t; }

            if self.session.packet_reader.packet_available() {
                match self.process_received_packet()? {
                    Some(packet_length) => return Ok(Progress::Inbound(packet_length)),
                    None => {
                        advanced = true;
                        continue;
                    }
                }
            }

            if self.session.data.outbound.next_step().is_none() {
                return Ok(if advanced {
                    Progress::Advanced
                } else {
                    Progress::Idle
                });
            }
        }
    }

async fn drive(&mut self) -> Result<Option<InboundPublish<'_>>, Error<IoErr>> {
        Ok(match self.drive_packet().await? {
            Progress::Inbound(packet_length) => Some(self.decode_inbound_publish(packet_length)),
            Progress::Idle | Progress::Advanced => None,
        })
    }

async fn poll(&mut self) -> Result<Option<InboundPublish<'_>>, Error<IoErr>> {
        match self.wait_for_progress().await? {
            Progress::Inbound(packet_length) => {
                Ok(Some(self.decode_inbound_publish(packet_length)))
            }
            Progress::Advanced => Ok(None),
            Progress::Idle => unreachable!("wait_for_progress only returns after session progress"),
        }
    }

#[verifier::exec_allows_no_decreases_clause]
async fn wait_for_progress(&mut self) -> Result<Progress, Error<IoErr>> {
        loop {
            match self.drive_packet().await? {
                Progress::Inbound(packet_length) => {
                    return Ok(Progress::Inbound(packet_length));
                }
                Progress::Advanced => return Ok(Progress::Advanced),
                Progress::Idle => {}
            }

            let deadline = self.session.runtime.next_deadline();
            let read = self.read_packet();
            match deadline {
                Some(deadline) => match with_deadline(deadline, read).await {
                    Ok(Ok(())) => {}
                    Ok(Err(err)) => return Err(err),
                    Err(_) => continue,
                },
                None => read.await?,
            }
        }
    }

#[verifier::exec_allows_no_decreases_clause]
async fn recv(&mut self) -> Result<InboundPublish<'_>, Error<IoErr>> {
        loop {
            match self.wait_for_progress().await? {
                Progress::Inbound(packet_length) => {
                    return Ok(self.decode_inbound_publish(packet_length));
                }
                Progress::Advanced => {}
                Progress::Idle => {
                    unreachable!("wait_for_progress only returns after session progress")
                }
            }
        }
    }

async fn read_packet(&mut self) -> Result<(), Error<IoErr>> {
        if !self.live {
            return Err(Error::Disconnected);
        }
        if let Err(err) = fill_packet_reader(&mut self.session.packet_reader, &mut self.io).await {
            match &err {
                Error::Transport(err) => (),
                Error::Disconnected => (),
                _ => {}
            }
            self.handle_disconnect();
            return Err(err);
        }
        Ok(())
    }


async fn disconnect_with(
        &mut self,
        disconnect: Disconnect<'_>,
    ) -> Result<(), Error<IoErr>> {
        if !self.live {
            return Ok(());
        }
        
        if let Some(properties) = disconnect.properties() {
            if !properties.valid_for(PropertyContext::Disconnect)
        {
            return Err(Error::InvalidRequest);
        } }
        let mut buffer = [0u8; CONTROL_PACKET_LEN];
        let packet = MqttSerializer::encode(&mut buffer, &disconnect)?;
        self.session.runtime.require_packet_size(packet.len())?;
        let result = match write_all(&mut self.io, packet).await {
            Ok(()) => match self.io.flush().await { Ok(v) => Ok(v), Err(e) => Err(Error::Transport(e)) },
            Err(err) => Err(err),
        };
        
        self.handle_disconnect();
        result
    }

async fn disconnect(&mut self) -> Result<(), Error<IoErr>> {
        self.disconnect_with(Disconnect::success()).await
    }

async fn subscribe(
        &mut self,
        topics: &[TopicFilter<'_>],
        properties: &[Property<'_>],
    ) -> Result<Op, Error<IoErr>> {
        if !self.live {
            return Err(Error::Disconnected);
        }
        if topics.is_empty() {
            return Err(Error::InvalidRequest);
        }
        if !Properties::from_slice(properties).valid_for(PropertyContext::Subscribe) {
            return Err(Error::InvalidRequest);
        }
        self.flush_outbound().await?;
        self.require_retained_slot()?;

        let packet_id = self.session.data.next_packet_id();
        let (offset, len) = self.session.data.outbound.encode_packet(&Subscribe {
            packet_id,
            dup: false,
            properties: Properties::from_slice(properties),
            topics,
        })?;
        self.session.runtime.require_packet_size(len)?;
        self.session
            .data
            .outbound
            .retain_packet(packet_id, offset, len)?;
        
        self.flush_outbound().await?;
        Ok(Op::new(
            OpKind::Subscribe,
            packet_id,
            self.session.data.generation(),
        ))
    }

async fn unsubscribe(
        &mut self,
        topics: &[&str],
        properties: &[Property<'_>],
    ) -> Result<Op, Error<IoErr>> {
        if !self.live {
            return Err(Error::Disconnected);
        }
        if topics.is_empty() {
            return Err(Error::InvalidRequest);
        }
        if !Properties::from_slice(properties).valid_for(PropertyContext::Unsubscribe) {
            return Err(Error::InvalidRequest);
        }
        self.flush_outbound().await?;
        self.require_retained_slot()?;

        let packet_id = self.session.data.next_packet_id();
        let (offset, len) = self.session.data.outbound.encode_packet(&Unsubscribe {
            packet_id,
            dup: false,
            properties: Properties::from_slice(properties),
            topics,
        })?;
        self.session.runtime.require_packet_size(len)?;
        self.session
            .data
            .outbound
            .retain_packet(packet_id, offset, len)?;
        
        self.flush_outbound().await?;
        Ok(Op::new(
            OpKind::Unsubscribe,
            packet_id,
            self.session.data.generation(),
        ))
    }

async fn publish<P>(
        &mut self,
        publication: Publication<'_, P>,
    ) -> Result<Option<Op>, PubError<P::Error, IoErr>>
    where
        P: ToPayload,
    {
        if !self.live {
            return Err(Error::Disconnected.into());
        }
        self.flush_outbound().await?;

        let Publication {
            topic,
            properties,
            qos,
            payload,
            retain,
        } = publication;
        if !properties.valid_for(PropertyContext::Publish) {
            return Err(Error::InvalidRequest.into());
        }
        let qos = match self.session.runtime.max_qos {
            Some(max_qos) if self.session.downgrade_qos && qos > max_qos => max_qos,
            _ => qos,
        };
        let packet_id = if qos > QoS::AtMostOnce { Some(self.session.data.next_packet_id()) } else { None };
        let header = PublishHeader {
            topic: Utf8String(topic),
            packet_id,
            properties,
            retain,
            qos,
            dup: false,
        };
        if packet_id.is_some() {
            self.require_retained_slot()?;
        }

        if !self.can_publish(qos) {
            return Err(Error::NotReady.into());
        }

        if let Some(packet_id) = packet_id {
            let (offset, len) = self
                .session
                .data
                .outbound
                .encode_publish(&header, payload)?;
            self.session.runtime.require_packet_size(len)?;
            self.session
                .data
                .outbound
                .retain_packet(packet_id, offset, len)?;
            self.session.runtime.send_quota = self.session.runtime.send_quota.saturating_sub(1);
            
            self.flush_outbound().await?;
            let kind = if qos == QoS::ExactlyOnce {
                OpKind::PublishExactlyOnce
            } else {
                OpKind::PublishAtLeastOnce
            };
            return Ok(Some(Op::new(
                kind,
                packet_id,
                self.session.data.generation(),
            )));
        }

        let packet = MqttSerializer::encode_publish(
            self.session.data.outbound.scratch_space(),
            &header,
            payload,
        )?;
        self.session.runtime.require_packet_size(packet.len())?;
        
        if !self.live {
            return Err(Error::Disconnected.into());
        }
        if let Err(err) = write_all(&mut self.io, packet).await {
            if matches!(err, Error::WriteZero) {
                return Err(err.into());
            }
            
            self.handle_disconnect();
            return Err(err.into());
        }
        if let Err(err) = self.io.flush().await {
            
            self.handle_disconnect();
            return Err(Error::Transport(err).into());
        }
        self.session.runtime.note_outbound_activity(Instant::now());

        Ok(None)
    }

fn require_retained_slot(&self) -> Result<(), Error<IoErr>> {
        if self.session.data.outbound.retained_full() {
            return Err(Error::Resource(ResourceError::InflightExhausted));
        }
        Ok(())
    }


}
impl SessionData {
fn handle_packet(
        &mut self,
        runtime: &mut RuntimeState,
        packet: ReceivedPacket<'_>,
    ) -> Result<bool, Error<Infallible>> {
        match packet {
            ReceivedPacket::ConnAck(_) => return Err(ProtocolError::UnexpectedPacket.into()),
            ReceivedPacket::SubAck(ack) => {
                if !self.outbound.ack_packet(ack.packet_id) {
                    
                    return Ok(false);
                }
                
                for code__r in ack.codes.iter() { let code = *code__r;
                    ReasonCode::from(code).as_result()?;
                }
            }
            ReceivedPacket::UnsubAck(ack) => {
                if !self.outbound.ack_packet(ack.packet_id) {
                    
                    return Ok(false);
                }
                
                for code__r in ack.codes.iter() { let code = *code__r;
                    ReasonCode::from(code).as_result()?;
                }
            }
            ReceivedPacket::PingResp => {
                
                runtime.ping_timeout = None;
            }
            ReceivedPacket::PubAck(ack) => {
                if !self.outbound.ack_packet(ack.packet_id) {
                    
                    return Ok(false);
                }
                runtime.send_quota = runtime
                    .send_quota
                    .saturating_add(1)
                    .min(runtime.max_send_quota);
                
                ack.reason.code().as_result()?;
            }
            ReceivedPacket::PubRec(rec) => {
                let queue_release = match self.outbound.ack_packet(rec.packet_id) {
                    true => {
                        runtime.send_quota = runtime
                            .send_quota
                            .saturating_add(1)
                            .min(runtime.max_send_quota);
                        
                        true
                    }
                    false if self.outbound.has_pending_release(rec.packet_id) => {
                        
                        false
                    }
                    false => {
                        
                        return Ok(false);
                    }
                };
                rec.reason.code().as_result()?;
                if queue_release {
                    check_pubrel_size(
                        runtime.maximum_packet_size,
                        rec.packet_id,
                        ReasonCode::Success,
                    )?;
                    self.outbound
                        .queue_release(rec.packet_id, ReasonCode::Success)?;
                    
                }
            }
            ReceivedPacket::PubComp(comp) => {
                if !self.outbound.ack_release(comp.packet_id) {
                    
                    return Ok(false);
                }
                
                comp.reason.code().as_result()?;
            }
            ReceivedPacket::PubRel(rel) => {
                let reason = if let Some(index) = self
                    .pending_server_packet_ids
                    .iter()
                    .position(|id| *id == rel.packet_id)
                {
                    self.pending_server_packet_ids.swap_remove(index);
                    ReasonCode::Success
                } else {
                    ReasonCode::PacketIdNotFound
                };
                
                let action = ControlAction::PubComp {
                    packet_id: rel.packet_id,
                    reason,
                };
                check_control_packet_size(runtime.maximum_packet_size, action)?;
                self.outbound.queue_control(action)?;
            }
            ReceivedPacket::Publish(info) => {
                
                match info.qos {
                    QoS::AtMostOnce => {}
                    QoS::AtLeastOnce => {
                        let packet_id = info.packet_id.ok_or(ProtocolError::MalformedPacket)?;
                        let reason = if self.pending_server_packet_ids.contains(&packet_id) {
                            ReasonCode::PacketIdInUse
                        } else {
                            ReasonCode::Success
                        };
                        
                        let action = ControlAction::PubAck { packet_id, reason };
                        check_control_packet_size(runtime.maximum_packet_size, action)?;
                        self.outbound.queue_control(action)?;
                    }
                    QoS::ExactlyOnce => {
                        let packet_id = info.packet_id.ok_or(ProtocolError::MalformedPacket)?;
                        let duplicate = self.pending_server_packet_ids.contains(&packet_id);
                        let reason = if !duplicate {
                            self.pending_server_packet_ids
                                .push(packet_id)
                                .map(|_u| ReasonCode::Success)
                                .unwrap_or(ReasonCode::ReceiveMaxExceeded)
                        } else {
                            ReasonCode::Success
                        };
                        
                        let action = ControlAction::PubRec { packet_id, reason };
                        check_control_packet_size(runtime.maximum_packet_size, action)?;
                        self.outbound.queue_control(action)?;
                        if duplicate || !reason.success() {
                            
                            return Ok(false);
                        }
                    }
                }
                return Ok(true);
            }
            ReceivedPacket::Disconnect(disconnect) => {
                
                return Err(Error::Disconnected);
            }
        }

        Ok(false)
    }


}
async fn write_current(connection: &mut VIo, bytes: &[u8]) -> Result<usize, Error<IoErr>> {
    match connection.write(bytes).await {
        Ok(0) => {
            
            Err(Error::WriteZero)
        }
        Ok(count) => Ok(count),
        Err(err) => Err(Error::Transport(err)),
    }
}


}
fn main() {}
