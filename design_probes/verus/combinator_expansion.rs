use vstd::prelude::*;
use vstd::std_specs::cmp::*;
verus! {
#[derive(Copy, Clone, PartialEq, Eq)]
pub struct Instant { pub ticks: u64 }
impl PartialOrdSpecImpl for Instant {
    open spec fn obeys_partial_cmp_spec() -> bool { true }
    open spec fn partial_cmp_spec(&self, other: &Instant) -> Option<core::cmp::Ordering> {
        if self.ticks < other.ticks { Some(core::cmp::Ordering::Less) } else if self.ticks == other.ticks { Some(core::cmp::Ordering::Equal) } else { Some(core::cmp::Ordering::Greater) }
    }
}
impl PartialOrd for Instant {
    fn partial_cmp(&self, other: &Instant) -> (r: Option<core::cmp::Ordering>) {
        if self.ticks < other.ticks { Some(core::cmp::Ordering::Less) } else if self.ticks == other.ticks { Some(core::cmp::Ordering::Equal) } else { Some(core::cmp::Ordering::Greater) }
    }
}
pub struct Rt { pub ping_timeout: Option<Instant> }

fn timed_out(runtime: &Rt, now: Instant) -> (r: bool)
    ensures r == (runtime.ping_timeout is Some && now.ticks >= runtime.ping_timeout->0.ticks)
{
    match (match runtime.ping_timeout { Some(deadline) => Some(now >= deadline), None => None }) { Some(v) => v, None => false }
}
}
fn main() {}
