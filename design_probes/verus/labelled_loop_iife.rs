use vstd::prelude::*;
verus! {
pub struct PIter { pub rem: usize }
impl PIter {
    #[verifier::external_body]
    pub fn next(&mut self) -> (r: Option<Result<u16, ()>>)
        ensures r is Some ==> old(self).rem > 0 && final(self).rem == old(self).rem - 1,
                r is None ==> old(self).rem == 0 && final(self).rem == 0
    { unimplemented!() }
}

fn scan(it0: PIter, local: u16) -> (out: (Result<(), ()>, u16))
    ensures out.0 is Ok ==> out.1 <= local
{
    let mut quota = local;
    let mut r: Result<(), ()> = Ok(());
    let mut it = it0;
    'iife: loop
        invariant_except_break quota <= local
        ensures r is Ok ==> quota <= local
        decreases 1int
    {
        loop
            invariant quota <= local
            decreases it.rem
        {
            let property = match it.next() { Some(v) => v, None => break };
            match (match property { Ok(v) => v, Err(e) => { r = Err(e); break 'iife; } }) {
                0 => { r = Err(()); break 'iife; }
                max => { quota = if max < local { max } else { local }; }
            }
        }
        r = Ok(());
        break;
    }
    (r, quota)
}
}
fn main() {}
