use vstd::prelude::*;
verus! {

pub assume_specification<T, F: FnOnce(T) -> bool> [Option::<T>::is_some_and] (o: Option<T>, f: F) -> (r: bool)
    requires o is Some ==> f.requires((o->0,)),
    ensures match o { Some(v) => f.ensures((v,), r), None => !r };

#[derive(Copy, Clone, PartialEq, Eq)]
pub struct Instant { pub ticks: u64 }
#[derive(Copy, Clone, PartialEq, Eq)]
pub struct Duration { pub ticks: u64 }

pub struct IoErr { pub k: u8 }
impl IoErr { #[verifier::external_body] pub fn kind(&self) -> u8 { unimplemented!() } }

pub struct VIo { pub wire: Ghost<Seq<u8>>, pub ops: Ghost<nat> }
impl VIo {
    #[verifier::external_body]
    pub async fn write(&mut self, buf: &[u8]) -> (r: Result<usize, IoErr>)
        ensures
            final(self).ops@ == old(self).ops@ + 1,
            match r { Ok(n) => n <= buf@.len() && final(self).wire@ == old(self).wire@ + buf@.subrange(0, n as int),
                      Err(_) => final(self).wire@ == old(self).wire@ }
    { unimplemented!() }
    #[verifier::external_body]
    pub async fn flush(&mut self) -> (r: Result<(), IoErr>)
        ensures final(self).ops@ == old(self).ops@ + 1, final(self).wire@ == old(self).wire@
    { unimplemented!() }
}

#[derive(Copy, Clone, PartialEq, Eq)]
pub enum ReasonCode { Success, Other }
pub enum ResourceError { BufferTooSmall, PacketTooLarge, InflightExhausted }
pub enum PeerError { InvalidPacket }
pub enum ProtocolError { UnexpectedPacket, MalformedPacket, InflightMetadataExhausted, PacketTooLarge }
pub enum Error<E> { NotReady, Disconnected, InvalidRequest, Peer(PeerError), Resource(ResourceError), Transport(E), WriteZero }
impl<E> From<ProtocolError> for Error<E> {
    fn from(p: ProtocolError) -> (r: Self)
        ensures !(r is Transport), !(r is Disconnected), !(r is WriteZero)
    {
        match p {
            ProtocolError::UnexpectedPacket
            | ProtocolError::MalformedPacket => Self::Peer(PeerError::InvalidPacket),
            ProtocolError::InflightMetadataExhausted => {
                Self::Resource(ResourceError::InflightExhausted)
            }
            ProtocolError::PacketTooLarge => Self::Resource(ResourceError::PacketTooLarge),
        }
    }
}
pub const CONTROL_PACKET_LEN: usize = 9;

#[derive(Copy, Clone, PartialEq, Eq)]
pub enum ControlAction {
    PubAck { packet_id: u16, reason: ReasonCode },
    PubRec { packet_id: u16, reason: ReasonCode },
    PubComp { packet_id: u16, reason: ReasonCode },
    PingReq,
}
#[derive(Copy, Clone, PartialEq, Eq)]
pub enum SendState { Write { written: usize }, Flush, Sent }
#[derive(Copy, Clone, PartialEq, Eq)]
pub struct RetainedStep { pub packet_id: u16, pub offset: usize, pub len: usize, pub state: SendState }
#[derive(Copy, Clone, PartialEq, Eq)]
pub struct ReleaseStep { pub packet_id: u16, pub reason: ReasonCode, pub state: SendState }
#[derive(Copy, Clone, PartialEq, Eq)]
pub struct ControlStep { pub action: ControlAction, pub state: SendState }
#[derive(Copy, Clone, PartialEq, Eq)]
pub enum OutboundStep { Control(ControlStep), Release(ReleaseStep), Retained(RetainedStep) }

// ---------- abstract view ----------
pub struct Ctl { pub action: ControlAction, pub state: SendState }
pub struct Rel { pub id: u16, pub reason: ReasonCode, pub state: SendState }
pub struct Ret { pub id: u16, pub offset: usize, pub len: usize, pub state: SendState, pub bytes: Seq<u8> }
pub struct OV { pub control: Seq<Ctl>, pub release: Seq<Rel>, pub retained: Seq<Ret> }

pub uninterp spec fn ctl_bytes(a: ControlAction) -> Seq<u8>;
pub uninterp spec fn rel_bytes(id: u16, reason: ReasonCode) -> Seq<u8>;

pub open spec fn state_ok(s: SendState, len: int) -> bool {
    match s { SendState::Write { written } => written < len, _ => true }
}
pub open spec fn wf(v: OV) -> bool {
    &&& forall|i: int| 0 <= i < v.control.len() ==> state_ok(#[trigger] v.control[i].state, ctl_bytes(v.control[i].action).len() as int)
    &&& forall|i: int| 0 <= i < v.release.len() ==> state_ok(#[trigger] v.release[i].state, rel_bytes(v.release[i].id, v.release[i].reason).len() as int)
    &&& forall|i: int| 0 <= i < v.retained.len() ==> state_ok((#[trigger] v.retained[i]).state, v.retained[i].len as int) && v.retained[i].bytes.len() == v.retained[i].len
    &&& forall|a: ControlAction| 0 < #[trigger] ctl_bytes(a).len() <= 9
    &&& forall|id: u16, r: ReasonCode| 0 < #[trigger] rel_bytes(id, r).len() <= 9
}
// the step handed out refers to a tracked entry
pub open spec fn step_tracked(v: OV, s: OutboundStep) -> bool {
    match s {
        OutboundStep::Control(c) => exists|i: int| 0 <= i < v.control.len() && #[trigger] v.control[i].action == c.action && v.control[i].state == c.state
             && (forall|j: int| 0 <= j < i ==> v.control[j].action != c.action),
        OutboundStep::Release(r) => exists|i: int| 0 <= i < v.release.len() && #[trigger] v.release[i].id == r.packet_id && v.release[i].state == r.state && v.release[i].reason == r.reason
             && (forall|j: int| 0 <= j < i ==> v.release[j].id != r.packet_id),
        OutboundStep::Retained(r) => exists|i: int| 0 <= i < v.retained.len() && #[trigger] v.retained[i].id == r.packet_id && v.retained[i].state == r.state
             && v.retained[i].offset == r.offset && v.retained[i].len == r.len
             && (forall|j: int| 0 <= j < i ==> v.retained[j].id != r.packet_id),
    }
}
pub open spec fn step_bytes(v: OV, s: OutboundStep) -> Seq<u8> {
    match s {
        OutboundStep::Control(c) => ctl_bytes(c.action),
        OutboundStep::Release(r) => rel_bytes(r.packet_id, r.reason),
        OutboundStep::Retained(r) => { let i = choose|i: int| 0 <= i < v.retained.len() && #[trigger] v.retained[i].id == r.packet_id && v.retained[i].offset == r.offset && v.retained[i].len == r.len; v.retained[i].bytes },
    }
}

pub open spec fn step_state(s: OutboundStep) -> SendState {
    match s { OutboundStep::Control(c) => c.state, OutboundStep::Release(r) => r.state, OutboundStep::Retained(r) => r.state }
}
pub open spec fn step_from(s: OutboundStep) -> int {
    match step_state(s) { SendState::Write { written } => written as int, _ => -1 }
}
pub open spec fn wire_ext(ow: Seq<u8>, nw: Seq<u8>, pkt: Seq<u8>, from: int) -> bool {
    let d = nw.len() - ow.len();
    if from < 0 { nw =~= ow } else {
        &&& d >= 0
        &&& from + d <= pkt.len()
        &&& nw =~= ow + pkt.subrange(from, from + d)
    }
}
#[verifier::external_body]
pub struct Outbound { x: u8 }
impl Outbound {
    pub uninterp spec fn view(&self) -> OV;

    #[verifier::external_body] pub fn next_step(&self) -> (r: Option<OutboundStep>)
        ensures r is Some ==> step_tracked(self@, r->0)
    { unimplemented!() }
    #[verifier::external_body] pub fn set_control_written(&mut self, action: ControlAction, written: usize, len: usize) -> (r: bool)
        ensures r == (exists|i: int| 0 <= i < old(self)@.control.len() && #[trigger] old(self)@.control[i].action == action)
    { unimplemented!() }
    #[verifier::external_body] pub fn set_release_written(&mut self, packet_id: u16, written: usize, len: usize) -> (r: bool)
        ensures r == (exists|i: int| 0 <= i < old(self)@.release.len() && #[trigger] old(self)@.release[i].id == packet_id)
    { unimplemented!() }
    #[verifier::external_body] pub fn set_retained_written(&mut self, packet_id: u16, written: usize, len: usize) -> (r: bool)
        ensures r == (exists|i: int| 0 <= i < old(self)@.retained.len() && #[trigger] old(self)@.retained[i].id == packet_id)
    { unimplemented!() }
    #[verifier::external_body] pub fn retained_packet(&self, offset: usize, len: usize) -> (r: &[u8])
        requires exists|i: int| 0 <= i < self@.retained.len() && #[trigger] self@.retained[i].offset == offset && self@.retained[i].len == len
        ensures r@.len() == len,
           forall|i: int| 0 <= i < self@.retained.len() && #[trigger] self@.retained[i].offset == offset && self@.retained[i].len == len ==> r@ == self@.retained[i].bytes
    { unimplemented!() }
    #[verifier::external_body] pub fn pending_control_len(&self) -> usize { unimplemented!() }
    #[verifier::external_body] pub fn retained_len(&self) -> usize { unimplemented!() }
    #[verifier::external_body] pub fn pending_release_len(&self) -> usize { unimplemented!() }
    #[verifier::external_body] pub fn used(&self) -> usize { unimplemented!() }
    #[verifier::external_body] pub fn capacity(&self) -> usize { unimplemented!() }
}
#[verifier::external_body]
pub fn serialize_control_packet<'b, E>(buffer: &'b mut [u8], packet: ControlAction, maximum_packet_size: Option<u32>) -> (r: Result<&'b [u8], Error<E>>)
    ensures r is Ok ==> r->Ok_0@ == ctl_bytes(packet), r is Err ==> r->Err_0 is Resource
{ unimplemented!() }
#[verifier::external_body]
pub fn serialize_pubrel<'b, E>(buffer: &'b mut [u8], packet_id: u16, reason: ReasonCode, maximum_packet_size: Option<u32>) -> (r: Result<&'b [u8], Error<E>>)
    ensures r is Ok ==> r->Ok_0@ == rel_bytes(packet_id, reason), r is Err ==> r->Err_0 is Resource
{ unimplemented!() }

pub struct RuntimeState {
    pub maximum_packet_size: Option<u32>,
    pub next_ping: Option<Instant>,
    pub ping_timeout: Option<Instant>,
}
impl RuntimeState {
    #[verifier::external_body] pub fn require_packet_size<E>(&self, len: usize) -> (r: Result<(), Error<E>>) ensures r is Err ==> r->Err_0 is Resource { unimplemented!() }
}
pub struct SessionData { pub outbound: Outbound }
pub struct Session { pub data: SessionData, pub runtime: RuntimeState }
impl Session {
    #[verifier::external_body] pub fn handle_disconnect(&mut self) { unimplemented!() }
}

pub struct Connection<'a> { pub session: &'a mut Session, pub io: VIo, pub live: bool }

#[derive(Copy, Clone)]
enum FlushedPacket { Control(ControlAction), Release(u16), Retained(u16) }
struct WriteStep<'a> { packet: FlushedPacket, bytes: &'a [u8], written: usize, len: usize }
enum PreparedStep<'a> { Write(WriteStep<'a>), Flush(FlushedPacket), Done }

impl<'x> Connection<'x> {
    pub fn handle_disconnect(&mut self)
        ensures !final(self).live, final(self).io == old(self).io
    {
        self.live = false;
        self.session.handle_disconnect();
    }
    #[verifier::external_body]
    async fn flush_current(&mut self, packet: FlushedPacket, now: Instant) -> (r: Result<(), Error<IoErr>>)
        ensures final(self).io.wire@ =~= old(self).io.wire@, r is Err && (r->Err_0 is Transport) ==> !final(self).live
    { unimplemented!() }
fn set_written(&mut self, packet: FlushedPacket, written: usize, len: usize)
    requires match packet {
        FlushedPacket::Control(a) => exists|i: int| 0 <= i < old(self).session.data.outbound@.control.len() && #[trigger] old(self).session.data.outbound@.control[i].action == a,
        FlushedPacket::Release(id) => exists|i: int| 0 <= i < old(self).session.data.outbound@.release.len() && #[trigger] old(self).session.data.outbound@.release[i].id == id,
        FlushedPacket::Retained(id) => exists|i: int| 0 <= i < old(self).session.data.outbound@.retained.len() && #[trigger] old(self).session.data.outbound@.retained[i].id == id,
    }
    ensures final(self).io == old(self).io, final(self).live == old(self).live
{
        let out = &mut self.session.data.outbound;
        let found = match packet {
            FlushedPacket::Control(action) => out.set_control_written(action, written, len),
            FlushedPacket::Release(packet_id) => out.set_release_written(packet_id, written, len),
            FlushedPacket::Retained(packet_id) => out.set_retained_written(packet_id, written, len),
        };
        debug_assert!(found, "outbound packet no longer tracked");
    }

async fn perform_outbound_step(
        &mut self,
        step: OutboundStep,
        now: Instant,
    ) -> (res: Result<bool, Error<IoErr>>)
    requires wf(old(self).session.data.outbound@), step_tracked(old(self).session.data.outbound@, step)
    ensures
        wire_ext(old(self).io.wire@, final(self).io.wire@, step_bytes(old(self).session.data.outbound@, step), step_from(step)),
        res is Err && (res->Err_0 is Transport) ==> !final(self).live,
{
        let mut small_buf = [0u8; CONTROL_PACKET_LEN];
        let runtime = &mut self.session.runtime;
        let data = &mut self.session.data;
        let prepared = match step {
            OutboundStep::Control(step) => match step.state {
                SendState::Write { written } => {
                    
                    let packet = serialize_control_packet(
                        &mut small_buf,
                        step.action,
                        runtime.maximum_packet_size,
                    )?;
                    PreparedStep::Write(WriteStep {
                        packet: FlushedPacket::Control(step.action),
                        bytes: packet,
                        written,
                        len: packet.len(),
                    })
                }
                SendState::Flush => {
                    
                    PreparedStep::Flush(FlushedPacket::Control(step.action))
                }
                SendState::Sent => PreparedStep::Done,
            },
            OutboundStep::Release(step) => match step.state {
                SendState::Write { written } => {
                    
                    let packet = serialize_pubrel(
                        &mut small_buf,
                        step.packet_id,
                        step.reason,
                        runtime.maximum_packet_size,
                    )?;
                    PreparedStep::Write(WriteStep {
                        packet: FlushedPacket::Release(step.packet_id),
                        bytes: packet,
                        written,
                        len: packet.len(),
                    })
                }
                SendState::Flush => {
                    
                    PreparedStep::Flush(FlushedPacket::Release(step.packet_id))
                }
                SendState::Sent => PreparedStep::Done,
            },
            OutboundStep::Retained(step) => match step.state {
                SendState::Write { written } => {
                    
                    runtime.require_packet_size(step.len)?;
                    PreparedStep::Write(WriteStep {
                        packet: FlushedPacket::Retained(step.packet_id),
                        bytes: data.outbound.retained_packet(step.offset, step.len),
                        written,
                        len: step.len,
                    })
                }
                SendState::Flush => {
                    
                    PreparedStep::Flush(FlushedPacket::Retained(step.packet_id))
                }
                SendState::Sent => PreparedStep::Done,
            },
        };

        let packet = match prepared {
            PreparedStep::Write(packet) => packet,
            PreparedStep::Flush(packet) => {
                self.flush_current(packet, now).await?;
                return Ok(true);
            }
            PreparedStep::Done => return Ok(false),
        };

        if !self.live {
            return Err(Error::Disconnected);
        }
        let WriteStep {
            packet,
            bytes,
            written,
            len,
        } = packet;
        let count = match write_current(&mut self.io, &bytes[written..]).await {
            Ok(count) => count,
            Err(Error::Transport(err)) => {
                
                self.handle_disconnect();
                return Err(Error::Transport(err));
            }
            Err(err) => return Err(err),
        };
        let written = written + count;
        self.set_written(packet, written, len);
        if written < len {
            return Ok(true);
        }
        self.flush_current(packet, now).await?;
        Ok(true)
    }


}
async fn write_current(connection: &mut VIo, bytes: &[u8]) -> (r: Result<usize, Error<IoErr>>)
    ensures match r { Ok(n) => 0 < n <= bytes@.len() && final(connection).wire@ == old(connection).wire@ + bytes@.subrange(0, n as int), Err(_) => final(connection).wire@ == old(connection).wire@ }
{
    match connection.write(bytes).await {
        Ok(0) => {
            
            Err(Error::WriteZero)
        }
        Ok(count) => Ok(count),
        Err(err) => Err(Error::Transport(err)),
    }
}


}
fn main() {}
