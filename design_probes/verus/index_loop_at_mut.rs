use vstd::prelude::*;
verus! {

#[derive(Copy, Clone, PartialEq, Eq)]
pub enum SendState { Write { written: usize }, Flush, Sent }
#[derive(Copy, Clone, PartialEq, Eq)]
pub struct RetainedPacket { pub packet_id: u16, pub offset: usize, pub len: usize, pub state: SendState }

pub struct HVec<T, const N: usize> { pub v: Vec<T> }
impl<T, const N: usize> View for HVec<T, N> { type V = Seq<T>; closed spec fn view(&self) -> Seq<T> { self.v@ } }
impl<T, const N: usize> HVec<T, N> {
    pub fn len(&self) -> (r: usize) ensures r == self@.len() { self.v.len() }
    pub fn at(&self, i: usize) -> (r: &T)
        requires i < self@.len()
        ensures *r == self@[i as int]
    { &self.v[i] }
    pub fn at_mut(&mut self, i: usize) -> (r: &mut T)
        requires i < old(self)@.len()
        ensures *r == old(self)@[i as int], final(self)@ == old(self)@.update(i as int, *final(r))
    { &mut self.v[i] }
}

pub struct Outbound<'a> {
    pub buf: &'a mut [u8],
    pub used: usize,
    pub retained: HVec<RetainedPacket, 8>,
}

impl<'a> Outbound<'a> {
    fn mark_retained_dup(&mut self)
        requires forall|i: int| 0 <= i < old(self).retained@.len() ==> old(self).retained@[i].offset < old(self).buf@.len()
        ensures final(self).retained@ == old(self).retained@, final(self).buf@.len() == old(self).buf@.len(),
          forall|k: int| 0 <= k < final(self).buf@.len() ==> (final(self).buf@[k] == old(self).buf@[k] || final(self).buf@[k] == old(self).buf@[k] | 8)
    {
        let mut __i = 0;
        while __i < self.retained.len()
            invariant self.buf@.len() == old(self).buf@.len(), self.retained@ == old(self).retained@,
              forall|i: int| 0 <= i < self.retained@.len() ==> self.retained@[i].offset < self.buf@.len(),
              forall|k: int| 0 <= k < self.buf@.len() ==> (self.buf@[k] == old(self).buf@[k] || self.buf@[k] == old(self).buf@[k] | 8)
            decreases self.retained@.len() - __i
        {
            let entry = self.retained.at(__i);
            self.buf[entry.offset] |= 1 << 3;
            __i += 1;
        }
    }

    fn arm(&mut self)
        ensures final(self).retained@.len() == old(self).retained@.len(),
            forall|i: int| 0 <= i < final(self).retained@.len() ==> final(self).retained@[i].state == (SendState::Write { written: 0 })
    {
        let mut i = 0;
        while i < self.retained.len()
            invariant i <= self.retained@.len(), self.retained@.len() == old(self).retained@.len(),
               forall|j: int| 0 <= j < i ==> self.retained@[j].state == (SendState::Write { written: 0 })
            decreases self.retained@.len() - i
        {
            let entry = self.retained.at_mut(i);
            entry.state = SendState::Write { written: 0 };
            i += 1;
        }
    }
}
}
fn main() {}
