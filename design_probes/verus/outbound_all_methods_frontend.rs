use vstd::prelude::*;
verus! {
#[derive(Copy, Clone, PartialEq, Eq, Structural)]
pub enum ReasonCode { Success, Other }
pub enum ProtocolError { InflightMetadataExhausted, PacketTooLarge, Encode }
pub enum PubError<P, T> { Session(T), Payload(P) }
pub const MAX_FIXED_HEADER_SIZE: usize = 5;
pub const MAX_RETAINED: usize = 8;
pub const MAX_PENDING_CONTROL: usize = 8;
pub const MAX_PENDING_RELEASE: usize = 8;

#[derive(Copy, Clone, PartialEq, Eq, Structural)]
pub enum ControlAction {
    PubAck { packet_id: u16, reason: ReasonCode },
    PubRec { packet_id: u16, reason: ReasonCode },
    PubComp { packet_id: u16, reason: ReasonCode },
    PingReq,
}
#[derive(Copy, Clone, PartialEq, Eq, Structural)]
pub struct PendingControl { pub action: ControlAction, pub state: SendState }
#[derive(Copy, Clone, PartialEq, Eq, Structural)]
pub struct PendingRelease { pub packet_id: u16, pub reason: ReasonCode, pub state: SendState }
#[derive(Copy, Clone, PartialEq, Eq, Structural)]
pub struct RetainedPacket { pub packet_id: u16, pub offset: usize, pub len: usize, pub state: SendState }
#[derive(Copy, Clone, PartialEq, Eq, Structural)]
pub enum SendState { Write { written: usize }, Flush, Sent }
impl SendState {
    fn is_fresh(self) -> bool {
        matches!(self, Self::Write { written: 0 })
    }
    fn is_in_progress(self) -> bool {
        matches!(self, Self::Write { written: 1.. } | Self::Flush)
    }
    fn set_written(&mut self, written: usize, len: usize) {
        *self = if written >= len {
            Self::Flush
        } else {
            Self::Write { written }
        };
    }
    fn matches_priority(self, in_progress: bool) -> bool {
        if in_progress {
            self.is_in_progress()
        } else {
            self.is_fresh()
        }
    }
}
#[derive(Copy, Clone, PartialEq, Eq, Structural)]
pub struct RetainedStep { pub packet_id: u16, pub offset: usize, pub len: usize, pub state: SendState }
#[derive(Copy, Clone, PartialEq, Eq, Structural)]
pub struct ReleaseStep { pub packet_id: u16, pub reason: ReasonCode, pub state: SendState }
#[derive(Copy, Clone, PartialEq, Eq, Structural)]
pub struct ControlStep { pub action: ControlAction, pub state: SendState }
#[derive(Copy, Clone, PartialEq, Eq, Structural)]
pub enum OutboundStep { Control(ControlStep), Release(ReleaseStep), Retained(RetainedStep) }

// ---- heapless::Vec shim (assumed contract; cross-checked by Kani on the real crate) ----
pub struct Vec<T, const N: usize> { pub v: std::vec::Vec<T> }
impl<T, const N: usize> View for Vec<T, N> { type V = Seq<T>; closed spec fn view(&self) -> Seq<T> { self.v@ } }
impl<T, const N: usize> Vec<T, N> {
    #[verifier::external_body] pub fn new() -> (r: Self) ensures r@.len() == 0 { unimplemented!() }
    #[verifier::external_body] pub fn len(&self) -> (r: usize) ensures r == self@.len(), r <= N { unimplemented!() }
    #[verifier::external_body] pub fn capacity(&self) -> (r: usize) ensures r == N { unimplemented!() }
    #[verifier::external_body] pub fn is_empty(&self) -> (r: bool) ensures r == (self@.len() == 0) { unimplemented!() }
    #[verifier::external_body] pub fn is_full(&self) -> (r: bool) ensures r == (self@.len() == N) { unimplemented!() }
    #[verifier::external_body] pub fn clear(&mut self) ensures final(self)@.len() == 0 { unimplemented!() }
    #[verifier::external_body] pub fn push(&mut self, item: T) -> (r: Result<(), T>)
        ensures old(self)@.len() < N ==> r is Ok && final(self)@ == old(self)@.push(item),
                old(self)@.len() >= N ==> r is Err && final(self)@ == old(self)@
    { unimplemented!() }
    #[verifier::external_body] pub fn remove(&mut self, index: usize) -> (r: T)
        requires index < old(self)@.len()
        ensures r == old(self)@[index as int], final(self)@ == old(self)@.remove(index as int)
    { unimplemented!() }
    #[verifier::external_body] pub fn swap_remove(&mut self, index: usize) -> (r: T)
        requires index < old(self)@.len()
        ensures r == old(self)@[index as int],
          final(self)@ == old(self)@.update(index as int, old(self)@.last()).drop_last()
    { unimplemented!() }
    #[verifier::external_body] pub fn at(&self, i: usize) -> (r: &T)
        requires i < self@.len() ensures *r == self@[i as int] { unimplemented!() }
    #[verifier::external_body] pub fn at_mut(&mut self, i: usize) -> (r: &mut T)
        requires i < old(self)@.len()
        ensures *r == old(self)@[i as int], final(self)@ == old(self)@.update(i as int, *final(r))
    { unimplemented!() }
    #[verifier::external_body]
    pub fn position_of<F: Fn(&T) -> bool>(&self, f: F) -> (r: Option<usize>)
        requires forall|i: int| 0 <= i < self@.len() ==> f.requires((&#[trigger] self@[i],)),
        ensures match r {
            Some(k) => k < self@.len() && f.ensures((&self@[k as int],), true)
                       && forall|j: int| 0 <= j < k ==> f.ensures((&#[trigger] self@[j],), false),
            None => forall|j: int| 0 <= j < self@.len() ==> f.ensures((&#[trigger] self@[j],), false),
        }
    { unimplemented!() }
    #[verifier::external_body]
    pub fn any_of<F: Fn(&T) -> bool>(&self, f: F) -> (r: bool)
        requires forall|i: int| 0 <= i < self@.len() ==> f.requires((&#[trigger] self@[i],)),
        ensures r ==> exists|k: int| 0 <= k < self@.len() && f.ensures((&#[trigger] self@[k],), true),
                !r ==> forall|j: int| 0 <= j < self@.len() ==> f.ensures((&#[trigger] self@[j],), false),
    { unimplemented!() }
    #[verifier::external_body]
    pub fn retain<F: FnMut(&T) -> bool>(&mut self, f: F)
    { unimplemented!() }
}
impl<const N: usize> Vec<RetainedPacket, N> {
    #[verifier::external_body]
    pub fn sum_of<F: Fn(&RetainedPacket) -> usize>(&self, f: F) -> usize { unimplemented!() }
}

#[verifier::external_body]
pub fn slice_copy_within(b: &mut [u8], src_start: usize, src_end: usize, dest: usize)
    requires src_start <= src_end <= old(b)@.len(), dest + (src_end - src_start) <= old(b)@.len()
    ensures final(b)@.len() == old(b)@.len(),
        forall|k: int| 0 <= k < final(b)@.len() ==> #[trigger] final(b)@[k] ==
            (if dest <= k < dest + (src_end - src_start) { old(b)@[k - dest + src_start] } else { old(b)@[k] })
{ unimplemented!() }

// ---- encoder entry points (Kani leaves) ----
pub struct PublishHeader<'a> { pub t: &'a str }
pub trait ToPayload: Sized { type Error; fn serialize(self, buffer: &mut [u8]) -> Result<usize, Self::Error>; }
pub trait Encodable {}
pub struct MqttSerializer {}
pub enum SerError { InsufficientMemory, Custom }
pub enum SerPubError<E> { Encode(SerError), Payload(E) }
impl MqttSerializer {
    #[verifier::external_body]
    pub fn encode_with_offset<'b, T: Encodable>(buf: &'b mut [u8], packet: &T) -> Result<(usize, &'b [u8]), SerError> { unimplemented!() }
    #[verifier::external_body]
    pub fn encode_publish_with_offset<'b, P: ToPayload>(buf: &'b mut [u8], header: &PublishHeader<'_>, payload: P) -> Result<(usize, &'b [u8]), SerPubError<P::Error>> { unimplemented!() }
}
impl<P, T> From<SerPubError<P>> for PubError<P, T> { #[verifier::external_body] fn from(e: SerPubError<P>) -> Self { unimplemented!() } }
impl From<SerError> for ProtocolError { #[verifier::external_body] fn from(e: SerError) -> Self { unimplemented!() } }

pub struct Outbound<'a> {
    pub buf: &'a mut [u8],
    pub used: usize,
    pub pending_control: Vec<PendingControl, MAX_PENDING_CONTROL>,
    pub retained: Vec<RetainedPacket, MAX_RETAINED>,
    pub pending_release: Vec<PendingRelease, MAX_PENDING_RELEASE>,
}
impl<'a> Outbound<'a> {
fn clear(&mut self) {
        self.used = 0;
        self.pending_control.clear();
        self.retained.clear();
        self.pending_release.clear();
    }

fn has_pending_state(&self) -> bool {
        !self.pending_control.is_empty()
            || !self.retained.is_empty()
            || !self.pending_release.is_empty()
    }

fn is_quiescent(&self) -> bool {
        !self.has_pending_state()
    }

fn retained_full(&self) -> bool {
        self.retained.is_full()
    }

fn used(&self) -> usize {
        self.used
    }

fn capacity(&self) -> usize {
        self.buf.len()
    }

fn retained_len(&self) -> usize {
        self.retained.len()
    }

fn pending_control_len(&self) -> usize {
        self.pending_control.len()
    }

fn pending_release_len(&self) -> usize {
        self.pending_release.len()
    }

fn max_inflight(&self) -> u16 {
        MAX_RETAINED.min(MAX_PENDING_RELEASE) as u16
    }

fn used_after_compact(&self) -> usize {
        self.retained.sum_of(|entry| -> (__r: usize) ensures __r == (entry.len) { entry.len })
    }

fn scratch_len(&self) -> usize {
        self.buf.len().saturating_sub(self.used_after_compact())
    }

fn can_retain(&self) -> bool {
        self.retained.len() < self.retained.capacity()
            && self.scratch_len() >= MAX_FIXED_HEADER_SIZE
    }

fn scratch_space(&mut self) -> &mut [u8] {
        self.compact();
        &mut self.buf[self.used..]
    }

fn queue_control(&mut self, action: ControlAction) -> Result<(), ProtocolError> {
        (match self.pending_control
            .push(PendingControl {
                action,
                state: SendState::Write { written: 0 },
            })
             { Ok(__v) => Ok(__v), Err(_) => Err(ProtocolError::InflightMetadataExhausted) })
    }

fn has_pending_pingreq(&self) -> bool {
        self.pending_control.any_of(|entry| -> (__r: bool) ensures __r == (matches!(entry.action, ControlAction::PingReq) && entry.state != SendState::Sent) { matches!(entry.action, ControlAction::PingReq) && entry.state != SendState::Sent })
    }

fn ack_packet(&mut self, packet_id: u16) -> bool {
        let Some(position) = self
            .retained
            .position_of(|entry| -> (__r: bool) ensures __r == (entry.packet_id == packet_id) { entry.packet_id == packet_id })
        else {
            return false;
        };
        self.retained.remove(position);
        self.compact();
        true
    }

fn has_retained(&self, packet_id: u16) -> bool {
        self.retained
            .any_of(|entry| -> (__r: bool) ensures __r == (entry.packet_id == packet_id) { entry.packet_id == packet_id })
    }

fn queue_release(
        &mut self,
        packet_id: u16,
        reason: ReasonCode,
    ) -> Result<(), ProtocolError> {
        (match self.pending_release
            .push(PendingRelease {
                packet_id,
                reason,
                state: SendState::Write { written: 0 },
            })
             { Ok(__v) => Ok(__v), Err(_) => Err(ProtocolError::InflightMetadataExhausted) })
    }

fn ack_release(&mut self, packet_id: u16) -> bool {
        let Some(position) = self
            .pending_release
            .position_of(|pending| -> (__r: bool) ensures __r == (pending.packet_id == packet_id) { pending.packet_id == packet_id })
        else {
            return false;
        };
        self.pending_release.swap_remove(position);
        true
    }

fn has_pending_release(&self, packet_id: u16) -> bool {
        self.pending_release
            .any_of(|pending| -> (__r: bool) ensures __r == (pending.packet_id == packet_id) { pending.packet_id == packet_id })
    }

fn mark_retained_dup(&mut self) {
        let ghost __n1 = self.retained@.len(); let mut __i1: usize = 0;
        while __i1 < self.retained.len()
            invariant __i1 <= __n1, self.retained@.len() == __n1,
            //INV1//
            decreases __n1 - __i1
        {
            let entry = self.retained.at(__i1);
            self.buf[entry.offset] |= 1 << 3;
            __i1 += 1;
        }
    }

fn encode_publish<P: ToPayload, E>(
        &mut self,
        header: &PublishHeader<'_>,
        payload: P,
    ) -> Result<(usize, usize), PubError<P::Error, E>> {
        self.compact();
        let start = self.used;
        let (offset, packet) =
            MqttSerializer::encode_publish_with_offset(&mut self.buf[start..], header, payload)?;
        Ok((start + offset, packet.len()))
    }

fn encode_packet<T>(&mut self, packet: &T) -> Result<(usize, usize), ProtocolError>
    where
        T: Encodable,
    {
        self.compact();
        let start = self.used;
        let (offset, packet) = MqttSerializer::encode_with_offset(&mut self.buf[start..], packet)?;
        Ok((start + offset, packet.len()))
    }

fn retained_packet(&self, offset: usize, len: usize) -> &[u8] {
        &self.buf[offset..offset + len]
    }

fn retain_packet(
        &mut self,
        packet_id: u16,
        offset: usize,
        len: usize,
    ) -> Result<(), ProtocolError> {
        (match self.retained
            .push(RetainedPacket {
                packet_id,
                offset,
                len,
                state: SendState::Write { written: 0 },
            })
             { Ok(__v) => Ok(__v), Err(_) => Err(ProtocolError::InflightMetadataExhausted) })?;
        self.used = self.used.max(offset + len);
        Ok(())
    }

fn next_step(&self) -> Option<OutboundStep> {
        let __arr9 = [true, false]; let mut __i9: usize = 0;
        while __i9 < 2
            invariant __i9 <= 2,
            //INV9//
            decreases 2 - __i9
        {
            let in_progress = __arr9[__i9];
            let ghost __n2 = self.pending_control@.len(); let mut __i2: usize = 0;
        while __i2 < self.pending_control.len()
            invariant __i2 <= __n2, self.pending_control@.len() == __n2,
            //INV2//
            decreases __n2 - __i2
        {
            let entry = self.pending_control.at(__i2);
                if entry.state.matches_priority(in_progress) {
                    return Some(OutboundStep::Control(ControlStep {
                        action: entry.action,
                        state: entry.state,
                    }));
                }
                __i2 += 1;
        }
            let ghost __n3 = self.pending_release@.len(); let mut __i3: usize = 0;
        while __i3 < self.pending_release.len()
            invariant __i3 <= __n3, self.pending_release@.len() == __n3,
            //INV3//
            decreases __n3 - __i3
        {
            let entry = self.pending_release.at(__i3);
                if entry.state.matches_priority(in_progress) {
                    return Some(OutboundStep::Release(ReleaseStep {
                        packet_id: entry.packet_id,
                        reason: entry.reason,
                        state: entry.state,
                    }));
                }
                __i3 += 1;
        }
            let ghost __n4 = self.retained@.len(); let mut __i4: usize = 0;
        while __i4 < self.retained.len()
            invariant __i4 <= __n4, self.retained@.len() == __n4,
            //INV4//
            decreases __n4 - __i4
        {
            let entry = self.retained.at(__i4);
                if entry.state.matches_priority(in_progress) {
                    return Some(OutboundStep::Retained(RetainedStep {
                        packet_id: entry.packet_id,
                        offset: entry.offset,
                        len: entry.len,
                        state: entry.state,
                    }));
                }
                __i4 += 1;
        }
            __i9 += 1;
        }
        None
    }

fn set_control_written(
        &mut self,
        action: ControlAction,
        written: usize,
        len: usize,
    ) -> bool {
        if let Some(entry) = (match self.pending_control.position_of(|entry| -> (__r: bool) ensures __r == (entry.action == action) { entry.action == action }) { Some(__p) => Some(self.pending_control.at_mut(__p)), None => None })
        {
            entry.state.set_written(written, len);
            true
        } else {
            false
        }
    }

fn flush_control(&mut self, action: ControlAction) -> bool {
        let found = if let Some(entry) = (match self.pending_control.position_of(|entry| -> (__r: bool) ensures __r == (entry.action == action) { entry.action == action }) { Some(__p) => Some(self.pending_control.at_mut(__p)), None => None })
        {
            entry.state = SendState::Sent;
            true
        } else {
            false
        };
        self.pending_control
            .retain(|entry| -> (__r: bool) ensures __r == (entry.state != SendState::Sent) { entry.state != SendState::Sent });
        found
    }

fn set_retained_written(
        &mut self,
        packet_id: u16,
        written: usize,
        len: usize,
    ) -> bool {
        if let Some(entry) = (match self.retained.position_of(|entry| -> (__r: bool) ensures __r == (entry.packet_id == packet_id) { entry.packet_id == packet_id }) { Some(__p) => Some(self.retained.at_mut(__p)), None => None })
        {
            entry.state.set_written(written, len);
            true
        } else {
            false
        }
    }

fn flush_retained(&mut self, packet_id: u16) -> bool {
        if let Some(entry) = (match self.retained.position_of(|entry| -> (__r: bool) ensures __r == (entry.packet_id == packet_id) { entry.packet_id == packet_id }) { Some(__p) => Some(self.retained.at_mut(__p)), None => None })
        {
            entry.state = SendState::Sent;
            true
        } else {
            false
        }
    }

fn set_release_written(
        &mut self,
        packet_id: u16,
        written: usize,
        len: usize,
    ) -> bool {
        if let Some(entry) = (match self.pending_release.position_of(|entry| -> (__r: bool) ensures __r == (entry.packet_id == packet_id) { entry.packet_id == packet_id }) { Some(__p) => Some(self.pending_release.at_mut(__p)), None => None })
        {
            entry.state.set_written(written, len);
            true
        } else {
            false
        }
    }

fn flush_release(&mut self, packet_id: u16) -> bool {
        if let Some(entry) = (match self.pending_release.position_of(|entry| -> (__r: bool) ensures __r == (entry.packet_id == packet_id) { entry.packet_id == packet_id }) { Some(__p) => Some(self.pending_release.at_mut(__p)), None => None })
        {
            entry.state = SendState::Sent;
            true
        } else {
            false
        }
    }

fn arm_replay(&mut self) {
        if !self.has_pending_state() {
            return;
        }

        
        self.mark_retained_dup();
        let ghost __n5 = self.pending_control@.len(); let mut __i5: usize = 0;
        while __i5 < self.pending_control.len()
            invariant __i5 <= __n5, self.pending_control@.len() == __n5,
            //INV5//
            decreases __n5 - __i5
        {
            let entry = self.pending_control.at_mut(__i5);
            entry.state = SendState::Write { written: 0 };
            __i5 += 1;
        }
        let ghost __n6 = self.retained@.len(); let mut __i6: usize = 0;
        while __i6 < self.retained.len()
            invariant __i6 <= __n6, self.retained@.len() == __n6,
            //INV6//
            decreases __n6 - __i6
        {
            let entry = self.retained.at_mut(__i6);
            entry.state = SendState::Write { written: 0 };
            __i6 += 1;
        }
        let ghost __n7 = self.pending_release@.len(); let mut __i7: usize = 0;
        while __i7 < self.pending_release.len()
            invariant __i7 <= __n7, self.pending_release@.len() == __n7,
            //INV7//
            decreases __n7 - __i7
        {
            let entry = self.pending_release.at_mut(__i7);
            entry.state = SendState::Write { written: 0 };
            __i7 += 1;
        }
    }

fn compact(&mut self) {
        let previous_used = self.used;

        let mut cursor = 0;
        let mut moved = 0;
        let ghost __n8 = self.retained@.len(); let mut __i8: usize = 0;
        while __i8 < self.retained.len()
            invariant __i8 <= __n8, self.retained@.len() == __n8,
            //INV8//
            decreases __n8 - __i8
        {
            let entry = self.retained.at_mut(__i8);
            if entry.offset != cursor {
                slice_copy_within(self.buf, entry.offset, entry.offset + entry.len, cursor);
                entry.offset = cursor;
                moved += 1;
            }
            cursor += entry.len;
            __i8 += 1;
        }
        self.used = cursor;
        if moved != 0 || previous_used != self.used {
            
        }
    }


}
}
fn main() {}
