use vstd::prelude::*;
verus! {
#[derive(Copy, Clone, PartialEq, Eq)]
pub enum SendState { Write { written: usize }, Flush, Sent }
impl SendState {
    fn set_written(&mut self, written: usize, len: usize)
        ensures *final(self) == (if written >= len { SendState::Flush } else { SendState::Write { written } })
    {
        *self = if written >= len {
            Self::Flush
        } else {
            Self::Write { written }
        };
    }
}
#[derive(Copy, Clone, PartialEq, Eq)]
pub struct Ret { pub packet_id: u16, pub state: SendState }

pub struct HVec<T, const N: usize> { pub v: Vec<T> }
impl<T, const N: usize> View for HVec<T, N> { type V = Seq<T>; closed spec fn view(&self) -> Seq<T> { self.v@ } }
impl<T, const N: usize> HVec<T, N> {
    #[verifier::external_body]
    pub fn position_of<F: Fn(&T) -> bool>(&self, f: F) -> (r: Option<usize>)
        requires forall|i: int| 0 <= i < self@.len() ==> f.requires((&#[trigger] self@[i],)),
        ensures match r {
            Some(k) => k < self@.len() && f.ensures((&self@[k as int],), true)
                       && forall|j: int| 0 <= j < k ==> f.ensures((&#[trigger] self@[j],), false),
            None => forall|j: int| 0 <= j < self@.len() ==> f.ensures((&#[trigger] self@[j],), false),
        }
    { unimplemented!() }
    #[verifier::external_body]
    pub fn at_mut(&mut self, i: usize) -> (r: &mut T)
        requires i < old(self)@.len()
        ensures *r == old(self)@[i as int], final(self)@ == old(self)@.update(i as int, *final(r))
    { unimplemented!() }
}
pub struct Ob { pub retained: HVec<Ret, 8> }
impl Ob {
    fn set_retained_written(&mut self, packet_id: u16, written: usize, len: usize) -> (r: bool)
        ensures
            r == (exists|i: int| 0 <= i < old(self).retained@.len() && old(self).retained@[i].packet_id == packet_id),
            !r ==> final(self).retained@ == old(self).retained@,
            final(self).retained@.len() == old(self).retained@.len(),
    {
        if let Some(entry) = (match self.retained.position_of(|entry| -> (ret: bool) ensures ret == (entry.packet_id == packet_id) { entry.packet_id == packet_id }) { Some(__i) => Some(self.retained.at_mut(__i)), None => None })
        {
            entry.state.set_written(written, len);
            true
        } else {
            false
        }
    }
}
}
fn main() {}
