use vstd::prelude::*;
use vstd::std_specs::cmp::*;
verus! {
#[derive(Copy, Clone, PartialEq, Eq)]
pub struct Instant { pub ticks: u64 }
#[derive(Copy, Clone, PartialEq, Eq)]
pub struct Duration { pub ticks: u64 }
impl Instant { #[verifier::external_body] pub fn now() -> Instant { unimplemented!() } }
impl Duration {
    #[verifier::external_body] pub fn from_secs(s: u64) -> Duration { unimplemented!() }
    #[verifier::external_body] pub fn as_secs(&self) -> u64 { unimplemented!() }
}
pub struct IoErr { pub k: u8 }
impl IoErr { #[verifier::external_body] pub fn kind(&self) -> u8 { unimplemented!() } }
pub struct VIo { pub wire: Ghost<Seq<u8>> }
#[derive(Copy, Clone, PartialEq, Eq)]
pub enum ReasonCode { Success, Other }
impl ReasonCode { #[verifier::external_body] pub fn as_result(&self) -> Result<(), PeerError> { unimplemented!() } }
pub enum ResourceError { BufferTooSmall, PacketTooLarge, InflightExhausted }
pub enum PeerError { InvalidPacket, Rejected(ReasonCode) }
pub enum ProtocolError { UnexpectedPacket, MalformedPacket }
pub enum Error<E> { NotReady, Disconnected, InvalidRequest, Peer(PeerError), Resource(ResourceError), Transport(E), WriteZero }
impl<E> From<ProtocolError> for Error<E> { #[verifier::external_body] fn from(p: ProtocolError) -> Self { unimplemented!() } }
#[derive(Copy, Clone, PartialEq, Eq)]
pub enum QoS { AtMostOnce = 0, AtLeastOnce = 1, ExactlyOnce = 2 }
impl TryFrom<u8> for QoS { type Error = (); #[verifier::external_body] fn try_from(v: u8) -> Result<QoS, ()> { unimplemented!() } }
pub struct HString<const N: usize> { pub g: Ghost<Seq<char>> }
impl<const N: usize> HString<N> {
    #[verifier::external_body] pub fn as_str(&self) -> &str { unimplemented!() }
}
impl<const N: usize> Clone for HString<N> { #[verifier::external_body] fn clone(&self) -> Self { unimplemented!() } }
impl<'a, const N: usize> TryFrom<&'a str> for HString<N> { type Error = (); #[verifier::external_body] fn try_from(v: &'a str) -> Result<Self, ()> { unimplemented!() } }
type String<const N: usize> = HString<N>;

pub enum Property<'a> {
    MaximumPacketSize(u32), SessionExpiryInterval(u32), ReceiveMaximum(u16), AssignedClientIdentifier(&'a str),
    ServerKeepAlive(u16), MaximumQoS(u8), Other(u8),
}
pub struct PropIter<'a> { pub p: &'a [u8] }
impl<'a> PropIter<'a> { #[verifier::external_body] pub fn next(&mut self) -> Option<Result<Property<'a>, PeerError>> { unimplemented!() } }
pub struct Properties<'a> { pub s: &'a [u8] }
impl<'a> Properties<'a> {
    #[verifier::external_body] pub fn from_slice(properties: &'a [Property<'a>]) -> Properties<'a> { unimplemented!() }
    #[verifier::external_body] pub fn iter(&'a self) -> PropIter<'a> { unimplemented!() }
}
pub struct Utf8String<'a>(pub &'a str);
#[derive(Copy, Clone)]
pub struct Auth<'a> { pub u: &'a str }
pub struct Will<'a> { pub t: &'a str }
impl<'a> Clone for Will<'a> { #[verifier::external_body] fn clone(&self) -> Self { unimplemented!() } }
pub struct Connect<'a> { pub keepalive: u16, pub properties: Properties<'a>, pub client_id: Utf8String<'a>, pub auth: Option<Auth<'a>>, pub will: Option<Will<'a>>, pub clean_start: bool }
#[verifier::external_body]
pub async fn write_packet(buffer: &mut [u8], connection: &mut VIo, packet: &Connect<'_>) -> Result<(), Error<IoErr>> { unimplemented!() }
pub struct ConnAck<'a> { pub session_present: bool, pub reason_code: ReasonCode, pub properties: Properties<'a> }
pub struct Disconnect { pub r: u8 }
impl Disconnect { #[verifier::external_body] pub fn reason_code(&self) -> ReasonCode { unimplemented!() } }
pub enum ReceivedPacket<'a> { ConnAck(ConnAck<'a>), Disconnect(Disconnect), PingResp }
pub struct PacketReader<'a> { pub buffer: &'a mut [u8], pub read_bytes: usize }
impl<'a> PacketReader<'a> {
    #[verifier::external_body] pub fn reset(&mut self) { unimplemented!() }
    #[verifier::external_body] pub fn received_packet(&mut self) -> Result<ReceivedPacket<'_>, ProtocolError> { unimplemented!() }
}
#[verifier::external_body]
pub async fn fill_packet_reader(packet_reader: &mut PacketReader<'_>, connection: &mut VIo) -> Result<(), Error<IoErr>> { unimplemented!() }
pub struct HVec16 { pub g: Ghost<Seq<u16>> }
impl HVec16 { #[verifier::external_body] pub fn capacity(&self) -> usize { unimplemented!() } }
#[verifier::external_body]
pub struct Outbound { x: u8 }
impl Outbound {
    #[verifier::external_body] pub fn arm_replay(&mut self) { unimplemented!() }
    #[verifier::external_body] pub fn max_inflight(&self) -> u16 { unimplemented!() }
    #[verifier::external_body] pub fn scratch_space(&mut self) -> &mut [u8] { unimplemented!() }
    #[verifier::external_body] pub fn pending_control_len(&self) -> usize { unimplemented!() }
    #[verifier::external_body] pub fn retained_len(&self) -> usize { unimplemented!() }
    #[verifier::external_body] pub fn pending_release_len(&self) -> usize { unimplemented!() }
    #[verifier::external_body] pub fn used(&self) -> usize { unimplemented!() }
    #[verifier::external_body] pub fn capacity(&self) -> usize { unimplemented!() }
}
pub struct RuntimeState { pub session_resumed: bool, pub keepalive_interval: Duration, pub send_quota: u16, pub max_send_quota: u16,
    pub maximum_packet_size: Option<u32>, pub max_qos: Option<QoS>, pub next_ping: Option<Instant>, pub ping_timeout: Option<Instant> }
impl RuntimeState {
    #[verifier::external_body] pub fn reset_transport(&mut self) { unimplemented!() }
    #[verifier::external_body] pub fn note_outbound_activity(&mut self, now: Instant) { unimplemented!() }
}
pub struct SessionData { pub outbound: Outbound, pub pending_server_packet_ids: HVec16, pub session_present: bool }
impl SessionData {
    #[verifier::external_body] pub fn reset(&mut self) { unimplemented!() }
    #[verifier::external_body] pub fn mark_session_present(&mut self) { unimplemented!() }
}
#[derive(Copy, Clone, PartialEq, Eq)]
pub enum ConnectEvent { Connected, Reconnected }
pub struct Session<'buf> { pub client_id: String<64>, pub packet_reader: PacketReader<'buf>, pub data: SessionData, pub runtime: RuntimeState,
    pub will: Option<Will<'buf>>, pub auth: Option<Auth<'buf>>, pub session_expiry_interval: u32, pub downgrade_qos: bool }
pub struct Connection<'a, 'buf> { pub session: &'a mut Session<'buf>, pub io: VIo, pub event: ConnectEvent, pub live: bool }
impl<'buf> Session<'buf> {
async fn connect(
        &mut self,
        io: VIo,
    ) -> Result<Connection<'_, 'buf>, Error<IoErr>> {
 let mut io = io;
        
        
        self.packet_reader.reset();
        self.runtime.reset_transport();
        self.data.outbound.arm_replay();
        let event = self.connect_handshake(&mut io).await?;
        Ok(Connection {
            session: self,
            io,
            event,
            live: true,
        })
    }

fn handle_disconnect(&mut self) {
        
        self.data.outbound.arm_replay();
        self.runtime.reset_transport();
        self.packet_reader.reset();
    }

#[verifier::exec_allows_no_decreases_clause]
async fn connect_handshake(
        &mut self,
        connection: &mut VIo,
    ) -> Result<ConnectEvent, Error<IoErr>> {
        let client_id = self.client_id.clone();
        let properties = [
            Property::MaximumPacketSize(self.packet_reader.buffer.len() as u32),
            Property::SessionExpiryInterval(self.session_expiry_interval),
            Property::ReceiveMaximum(self.data.pending_server_packet_ids.capacity() as u16),
        ];
        let will = self.will.clone();
        let keepalive = self.runtime.keepalive_interval.as_secs() as u16;
        let clean_start = !self.data.session_present;
        let auth = self.auth;
        

        {
            let buffer = self.data.outbound.scratch_space();
            write_packet(
                buffer,
                connection,
                &Connect {
                    keepalive,
                    properties: Properties::from_slice(&properties),
                    client_id: Utf8String(client_id.as_str()),
                    auth,
                    will,
                    clean_start,
                },
            )
            .await?;
        }

        self.runtime.next_ping = None;
        self.runtime.ping_timeout = None;

        if let Err(err) = fill_packet_reader(&mut self.packet_reader, connection).await {
            match &err {
                Error::Transport(err) => (),
                Error::Disconnected => (),
                _ => {}
            }
            self.handle_disconnect();
            return Err(err);
        }

        let packet = match self.packet_reader.received_packet() {
            Ok(packet) => packet,
            Err(err) => {
                
                self.handle_disconnect();
                return Err(err.into());
            }
        };
        let ack = match packet {
            ReceivedPacket::ConnAck(ack) => ack,
            ReceivedPacket::Disconnect(disconnect) => {
                
                self.handle_disconnect();
                return Err(Error::Disconnected);
            }
            _ => {
                self.handle_disconnect();
                return Err(Error::Peer(PeerError::InvalidPacket));
            }
        };

        if let Err(err) = ack.reason_code.as_result() {
            
            return Err(Error::Peer(err));
        }

        let resumed = ack.session_present;
        if !resumed {
            
            self.data.reset();
        }

        let local_quota = self.data.outbound.max_inflight();
        let mut send_quota = local_quota;
        let mut max_send_quota = local_quota;
        let mut max_qos = None;
        let mut maximum_packet_size = None;
        let mut keepalive_interval = self.runtime.keepalive_interval;
        let mut assigned_client_id: Option<String<64>> = None;

        let mut property_result: Result<(), PeerError> = Ok(());
        let mut __it = ack.properties.iter();
        'iife: loop {
            loop {
                let property = match __it.next() { Some(v) => v, None => break };
                match (match property { Ok(v) => v, Err(e) => { property_result = Err(e); break 'iife; } }) {
                    Property::MaximumPacketSize(size) => maximum_packet_size = Some(size),
                    Property::AssignedClientIdentifier(id) => {
                        assigned_client_id =
                            Some(match id.try_into().map_err(|_u| PeerError::InvalidPacket) { Ok(v) => v, Err(e) => { property_result = Err(e); break 'iife; } });
                    }
                    Property::ServerKeepAlive(keepalive) => {
                        keepalive_interval = Duration::from_secs(keepalive as u64);
                    }
                    Property::ReceiveMaximum(max) => {
                        if max == 0 {
                            property_result = Err(PeerError::InvalidPacket); break 'iife;
                        }
                        send_quota = max.min(local_quota);
                        max_send_quota = max.min(local_quota);
                    }
                    Property::MaximumQoS(max) => {
                        max_qos = Some(match QoS::try_from(max).map_err(|_u| PeerError::InvalidPacket) { Ok(v) => v, Err(e) => { property_result = Err(e); break 'iife; } });
                    }
                    _ => {}
                }
            }
            property_result = Ok(());
            break;
        }
        if let Err(err) = property_result {
            self.handle_disconnect();
            return Err(Error::Peer(err));
        }

        self.runtime.session_resumed = resumed;
        self.runtime.keepalive_interval = keepalive_interval;
        self.runtime.send_quota = send_quota;
        self.runtime.max_send_quota = max_send_quota;
        self.runtime.max_qos = max_qos;
        self.runtime.maximum_packet_size = maximum_packet_size;
        if let Some(assigned_client_id) = assigned_client_id {
            self.client_id = assigned_client_id;
        }

        

        self.data.mark_session_present();
        self.runtime.note_outbound_activity(Instant::now());
        self.runtime.ping_timeout = None;
        if resumed {
            
            Ok(ConnectEvent::Reconnected)
        } else {
            
            Ok(ConnectEvent::Connected)
        }
    }


}
}
fn main() {}
