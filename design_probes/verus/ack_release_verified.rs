use vstd::prelude::*;
verus! {
#[derive(Copy, Clone, PartialEq, Eq)]
pub struct Rel { pub packet_id: u16, pub sent: bool }

pub struct HVec<T, const N: usize> { pub v: Vec<T> }
impl<T, const N: usize> View for HVec<T, N> { type V = Seq<T>; closed spec fn view(&self) -> Seq<T> { self.v@ } }
impl<T, const N: usize> HVec<T, N> {
    #[verifier::external_body]
    pub fn position_of<F: Fn(&T) -> bool>(&self, f: F) -> (r: Option<usize>)
        requires forall|i: int| 0 <= i < self@.len() ==> f.requires((&#[trigger] self@[i],)),
        ensures match r {
            Some(k) => k < self@.len() && f.ensures((&self@[k as int],), true)
                       && forall|j: int| 0 <= j < k ==> f.ensures((&#[trigger] self@[j],), false),
            None => forall|j: int| 0 <= j < self@.len() ==> f.ensures((&#[trigger] self@[j],), false),
        }
    { unimplemented!() }
    #[verifier::external_body]
    pub fn remove(&mut self, index: usize) -> (r: T)
        requires index < old(self)@.len()
        ensures r == old(self)@[index as int], final(self)@ == old(self)@.remove(index as int)
    { unimplemented!() }
}
pub struct Ob { pub pending_release: HVec<Rel, 8> }
impl Ob {
    fn ack_release(&mut self, packet_id: u16) -> (r: bool)
        ensures
            r == (exists|i: int| 0 <= i < old(self).pending_release@.len() && old(self).pending_release@[i].packet_id == packet_id),
            !r ==> final(self).pending_release@ == old(self).pending_release@,
            r ==> exists|i: int| 0 <= i < old(self).pending_release@.len() && old(self).pending_release@[i].packet_id == packet_id
                    && (forall|j: int| 0 <= j < i ==> old(self).pending_release@[j].packet_id != packet_id)
                    && final(self).pending_release@ == old(self).pending_release@.remove(i),
    {
        let Some(position) = self
            .pending_release
            .position_of(|pending| -> (ret: bool) ensures ret == (pending.packet_id == packet_id) { pending.packet_id == packet_id })
        else {
            return false;
        };
        self.pending_release.remove(position);
        true
    }
}
}
fn main() {}
