#!/usr/bin/env python3
"""mini extractor experiment: pull fn items by name out of a rust file, drop logging macros, strip visibility."""
import re, sys

LOG = ('trace','debug','info','warn','error')

def strip_comments(src):
    out=[];i=0;n=len(src)
    while i<n:
        c=src[i]
        if src.startswith('//',i):
            j=src.find('\n',i); j = n if j<0 else j
            i=j; continue
        if src.startswith('/*',i):
            j=src.find('*/',i); i=j+2; continue
        if c=='"':
            j=i+1
            while src[j]!='"':
                if src[j]=='\\': j+=1
                j+=1
            out.append(src[i:j+1]); i=j+1; continue
        if c=="'" :
            # char literal or lifetime
            m=re.match(r"'(\\.|[^\\'])'",src[i:])
            if m: out.append(m.group(0)); i+=len(m.group(0)); continue
        out.append(c); i+=1
    return ''.join(out)

def match_brace(src,i,open_='{',close='}'):
    assert src[i]==open_
    d=0
    while True:
        c=src[i]
        if c=='"':
            i+=1
            while src[i]!='"':
                if src[i]=='\\': i+=1
                i+=1
        elif c==open_: d+=1
        elif c==close:
            d-=1
            if d==0: return i
        i+=1

def drop_logging(body):
    pat=re.compile(r'\b(%s)!\s*\('%'|'.join(LOG))
    while True:
        m=pat.search(body)
        if not m: return body
        s=m.start(); p=body.index('(',m.start())
        e=match_brace(body,p,'(',')')
        k=e+1
        while k<len(body) and body[k] in ' \t': k+=1
        if k<len(body) and body[k]==';': k+=1
        body=body[:s]+body[k:]

def find_fn(src,name):
    m=re.search(r'(?:pub(?:\([a-z]+\))?\s+)?(?:const\s+)?(?:async\s+)?fn\s+%s\b'%re.escape(name),src)
    if not m: raise SystemExit('anchor lost: fn '+name)
    b=src.index('{',m.end())
    # skip where-clauses etc: first '{' at depth 0 of parens/angles is fine for these fns
    e=match_brace(src,b)
    sig=src[m.start():b]; body=src[b:e+1]
    sig=re.sub(r'^pub(\([a-z]+\))?\s+','',sig)
    return sig, drop_logging(body)

if __name__=='__main__':
    src=strip_comments(open(sys.argv[1]).read())
    for name in sys.argv[2:]:
        sig,body=find_fn(src,name)
        print(sig+body+'\n')
