import re,sys
src=open('body_ob.txt').read()
HF=['pending_control','retained','pending_release']

def match(s,i,o,c):
    d=0
    while True:
        ch=s[i]
        if ch==o: d+=1
        elif ch==c:
            d-=1
            if d==0: return i
        i+=1

ctr=[0]
def fresh():
    ctr[0]+=1; return ctr[0]

# X16: for loops over heapless fields
def x16(s):
    pat=re.compile(r'for (\w+) in (&mut |&)?self\.(\w+)(\.iter_mut\(\)|\.iter\(\))? \{')
    while True:
        m=pat.search(s)
        if not m: break
        var,ref,field,it=m.groups()
        assert field in HF,(field)
        mut = (ref=='&mut ') or (it=='.iter_mut()')
        k=fresh()
        b=s.index('{',m.end()-1); e=match(s,b,'{','}')
        body=s[b+1:e]
        acc='at_mut' if mut else 'at'
        new=(f"let ghost __n{k} = self.{field}@.len(); let mut __i{k}: usize = 0;\n"
             f"        while __i{k} < self.{field}.len()\n            invariant __i{k} <= __n{k}, self.{field}@.len() == __n{k},\n            //INV{k}//\n            decreases __n{k} - __i{k}\n        {{\n"
             f"            let {var} = self.{field}.{acc}(__i{k});{body}    __i{k} += 1;\n        }}")
        s=s[:m.start()]+new+s[e+1:]
    # array literal loop
    pat=re.compile(r'for (\w+) in \[true, false\] \{')
    m=pat.search(s)
    if m:
        k=fresh(); b=m.end()-1; e=match(s,b,'{','}'); body=s[b+1:e]
        new=(f"let __arr{k} = [true, false]; let mut __i{k}: usize = 0;\n        while __i{k} < 2\n            invariant __i{k} <= 2,\n            //INV{k}//\n            decreases 2 - __i{k}\n        {{\n            let {m.group(1)} = __arr{k}[__i{k}];{body}    __i{k} += 1;\n        }}")
        s=s[:m.start()]+new+s[e+1:]
    return s

def closure_plus(s,i,rt):
    """s[i] == '|' start of closure `|p| BODY` ending at matching ')' of enclosing call; returns (text,end)"""
    j=s.index('|',i+1)
    params=s[i+1:j]
    # body until the ')' that closes the call: find by scanning parens depth
    k=j+1; d=0
    while True:
        ch=s[k]
        if ch in '([{': d+=1
        elif ch in ')]}':
            if d==0: break
            d-=1
        k+=1
    body=s[j+1:k].strip()
    if body.startswith('{') and body.endswith('}'): body=body[1:-1].strip()
    if params.strip()=='_': params='_u'
    return f"|{params}| -> (__r: {rt}) ensures __r == ({body}) {{ {body} }}", k

def x17(s):
    for name,new,rt in [('any','any_of','bool'),('position','position_of','bool')]:
        pat=re.compile(r'\.iter\(\)\s*\.%s\('%name)
        while True:
            m=pat.search(s)
            if not m: break
            c,e=closure_plus(s,m.end(),rt)
            s=s[:m.start()]+f".{new}({c}"+s[e:]
    pat=re.compile(r'\.iter\(\)\.map\(')
    m=pat.search(s)
    if m:
        c,e=closure_plus(s,m.end(),'usize')
        assert s[e:e+7]==').sum()',s[e:e+10]
        s=s[:m.start()]+f".sum_of({c})"+s[e+7:]
    pat=re.compile(r'\.retain\(')
    m=pat.search(s)
    if m:
        c,e=closure_plus(s,m.end(),'bool')
        s=s[:m.end()]+c+s[e:]
    # iter_mut().find
    pat=re.compile(r'self\s*\.(\w+)\s*\.iter_mut\(\)\s*\.find\(')
    while True:
        m=pat.search(s)
        if not m: break
        c,e=closure_plus(s,m.end(),'bool')
        f=m.group(1)
        s=s[:m.start()]+f"(match self.{f}.position_of({c}) {{ Some(__p) => Some(self.{f}.at_mut(__p)), None => None }})"+s[e+1:]
    return s

def x8(s):
    pat=re.compile(r'\.map_err\(\|_\| ([\w:]+)\)')
    while True:
        m=pat.search(s)
        if not m: break
        # receiver: scan back to start of expression `self` at depth 0
        i=m.start()
        # find beginning: previous 'self' that starts the statement (after newline+spaces or 'Ok(' etc.)
        j=s.rfind('self',0,i)
        # walk back further while the text between is part of a chain (handles nested self. inside args)
        while True:
            seg=s[j:i]
            if seg.count('(')==seg.count(')') and seg.count('{')==seg.count('}'): break
            j=s.rfind('self',0,j)
        recv=s[j:i]
        s=s[:j]+f"(match {recv} {{ Ok(__v) => Ok(__v), Err(_) => Err({m.group(1)}) }})"+s[m.end():]
    return s

def x19(s):
    pat=re.compile(r'self\.buf\s*\.copy_within\(([^,]+?)\.\.([^,]+?), (\w+)\);')
    return pat.sub(lambda m: f"slice_copy_within(self.buf, {m.group(1).strip()}, {m.group(2).strip()}, {m.group(3)});",s)

s=x19(x8(x17(x16(src))))
open('body_ob_rw.txt','w').write(s)
print(s[:0])
