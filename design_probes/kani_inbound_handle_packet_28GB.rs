//! Pairing harness for `SessionData::handle_packet` (src/mqtt_client/session/inbound.rs), attached as a
//! child module of that file.  Structure-independent check of the acknowledgement arms with an oracle
//! written from the property text (C02, C03, C06, C16, C18):
//!   SUBACK / UNSUBACK / PUBACK for an in-flight identifier remove exactly that entry — whatever reason
//!     codes they carry — and a failing code is reported as a rejection; PUBACK returns one unit of quota;
//!   PUBREC (success class) moves the identifier to the end of the release list and keeps the quota;
//!     PUBREC (failing) only removes it and returns the quota;
//!   PUBCOMP removes the release entry and returns the quota;
//!   acknowledgements for unknown identifiers change nothing.
//! BOUNDED: at most 2 retained and 2 pending-release entries (capacity of the code: 8 each), SUBACK code
//! lists of at most 2 bytes; every identifier, reason byte and quota value.
use super::*;
#[cfg(verif_replay)]
use crate::verif_replay_shim as kani;
use crate::packets::{PubAck, PubComp, PubRec, SubAck, UnsubAck};
use crate::properties::Properties;
use embassy_time::Duration;

fn ok_code(b: u8) -> bool {
    // MQTT 5.0 table 2-6: the reason codes below 0x80 that this client knows; anything else is a failure
    b == 0x00 || b == 0x01 || b == 0x02 || b == 0x04 || b == 0x10 || b == 0x11 || b == 0x18 || b == 0x19
}

#[cfg_attr(kani, kani::proof)]
#[cfg_attr(kani, kani::unwind(6))]
#[cfg_attr(verif_replay, test)]
fn k_handle_acks() {
    // the arena plays no part in these arms: zero-length entries keep `compact` from moving bytes (the arena
    // side of `ack_packet` is proved in the Verus lane for every size)
    let mut storage = [0u8; 1];
    let mut d = SessionData::new(&mut storage);
    let mut rt = RuntimeState::new(Duration::from_secs(0));
    let q: u16 = kani::any();
    let qmax: u16 = kani::any();
    kani::assume(q <= qmax);
    rt.send_quota = q;
    rt.max_send_quota = qmax;

    // in-flight state: identifiers pairwise distinct (W6)
    let (nr, nl): (usize, usize) = (kani::any(), kani::any());
    kani::assume(nr <= 2 && nl <= 2);
    let ids: [u16; 4] = [kani::any(), kani::any(), kani::any(), kani::any()];
    kani::assume(ids[0] != ids[1] && ids[0] != ids[2] && ids[0] != ids[3] && ids[1] != ids[2] && ids[1] != ids[3] && ids[2] != ids[3]);
    if nr >= 1 { d.outbound.retain_packet(ids[0], 0, 0).unwrap(); }
    if nr >= 2 { d.outbound.retain_packet(ids[1], 0, 0).unwrap(); }
    if nl >= 1 { d.outbound.queue_release(ids[2], ReasonCode::Success).unwrap(); }
    if nl >= 2 { d.outbound.queue_release(ids[3], ReasonCode::Success).unwrap(); }

    let pid: u16 = kani::any();
    let kind: u8 = kani::any();
    kani::assume(kind < 5);
    let b0: u8 = kani::any();
    let b1: u8 = kani::any();
    let ncodes: usize = kani::any();
    kani::assume(ncodes <= 2);
    let codes_buf = [b0, b1];
    let codes = &codes_buf[..ncodes];

    let had_ret = d.outbound.has_retained(pid);
    let had_rel = d.outbound.has_pending_release(pid);
    // an identifier other than the acknowledged one that is in flight (must survive)
    let other_ret = if nr >= 1 && ids[0] != pid { Some(ids[0]) } else if nr >= 2 && ids[1] != pid { Some(ids[1]) } else { None };
    let other_rel = if nl >= 1 && ids[2] != pid { Some(ids[2]) } else if nl >= 2 && ids[3] != pid { Some(ids[3]) } else { None };

    let packet = match kind {
        0 => ReceivedPacket::SubAck(SubAck { packet_id: pid, _properties: Properties::empty(), codes }),
        1 => ReceivedPacket::UnsubAck(UnsubAck { packet_id: pid, _properties: Properties::empty(), codes }),
        2 => ReceivedPacket::PubAck(PubAck { packet_id: pid, reason: ReasonCode::from(b0).into() }),
        3 => ReceivedPacket::PubRec(PubRec { packet_id: pid, reason: ReasonCode::from(b0).into() }),
        _ => ReceivedPacket::PubComp(PubComp { packet_id: pid, reason: ReasonCode::from(b0).into() }),
    };
    let r = d.handle_packet(&mut rt, packet);

    let plus_one = if q < qmax { q + 1 } else { qmax };
    let codes_fail = (ncodes >= 1 && !ok_code(b0)) || (ncodes >= 2 && !ok_code(b1));
    match kind {
        0 | 1 | 2 => {
            if had_ret {
                assert!(!d.outbound.has_retained(pid), "acknowledged request is still retained (it would be replayed and never complete)");
                assert!(d.outbound.retained_len() == nr - 1);
                let fail = if kind == 2 { !ok_code(b0) } else { codes_fail };
                assert!(r.is_err() == fail, "failure reason code not surfaced exactly when one is present");
                assert!(rt.send_quota == if kind == 2 { plus_one } else { q });
            } else {
                assert!(d.outbound.retained_len() == nr && matches!(r, Ok(false)) && rt.send_quota == q, "stale acknowledgement changed state");
            }
            assert!(d.outbound.pending_release_len() == nl);
        }
        3 => {
            if had_ret {
                assert!(!d.outbound.has_retained(pid) && d.outbound.retained_len() == nr - 1);
                if ok_code(b0) {
                    assert!(d.outbound.has_pending_release(pid) && d.outbound.pending_release_len() == nl + 1, "successful PUBREC did not queue the PUBREL");
                    assert!(rt.send_quota == q && matches!(r, Ok(false)));
                } else {
                    assert!(!d.outbound.has_pending_release(pid) && d.outbound.pending_release_len() == nl, "failing PUBREC queued a PUBREL");
                    assert!(rt.send_quota == plus_one && r.is_err());
                }
            } else {
                assert!(d.outbound.retained_len() == nr && d.outbound.pending_release_len() == nl && rt.send_quota == q);
                assert!(d.outbound.has_pending_release(pid) == had_rel);
            }
        }
        _ => {
            if had_rel {
                assert!(!d.outbound.has_pending_release(pid) && d.outbound.pending_release_len() == nl - 1);
                assert!(rt.send_quota == plus_one && r.is_err() == !ok_code(b0));
            } else {
                assert!(d.outbound.pending_release_len() == nl && matches!(r, Ok(false)) && rt.send_quota == q);
            }
            assert!(d.outbound.retained_len() == nr);
        }
    }
    if let Some(o) = other_ret { assert!(d.outbound.has_retained(o), "an unrelated in-flight request was dropped"); }
    if let Some(o) = other_rel { assert!(d.outbound.has_pending_release(o), "an unrelated PUBREL was dropped"); }
    assert!(d.outbound.pending_control_len() == 0);
    kani::cover!(kind == 0 && had_ret && codes_fail);
    kani::cover!(kind == 3 && had_ret && ok_code(b0));
    kani::cover!(kind == 4 && had_rel);
}
